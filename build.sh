#!/bin/sh
# builds the verifier offline from /verif/engine
cd /verif/engine && GOFLAGS=-mod=mod GOPROXY=off GOTOOLCHAIN=local PATH=/opt/veriftools/go1.26.8/bin:$PATH go build -o ../bin/govc ./cmd/govc
