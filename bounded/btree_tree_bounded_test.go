package inmemory

// BOUNDED STAND-IN (not a proof): whole-tree behaviour of the B-tree against a sorted-multiset model.
// Injected into /repo/inmemory with `go test -overlay` by /verif/bin/govc (see /verif/bounded/bounded.json); nothing is
// written into /repo. The node-level steps are proved by contract (C05/C06/C17/C18); what no contract reaches - items moving
// between nodes on split, load balancing, merge and removal, and the cursor walking across nodes - is checked here on
//   part A: EVERY sequence of Add(k)/Remove(k) up to length L over K keys, for slot lengths 2 and 4, unique and non-unique,
//           leaf load balancing off and on (exhaustive within the bound);
//   part B: a fixed set of longer pseudo-random sequences (fixed seeds, so every run explores the same cases) with load
//           balancing off (sampled, NOT exhaustive);
//   part C: named canary sequences (known findings).
// After every operation: the operation's result, Count, the forward scan (First/Next), the backward scan (Last/Previous),
// and Find / Find(first) / FindInDescendingOrder for every key of the domain are compared with the model.

import (
	"fmt"
	"math/rand"
	"os"
	"sort"
	"strings"
	"testing"

	"github.com/sharedcode/sop"
	"github.com/sharedcode/sop/btree"
)

type zzCfg struct {
	slot    int
	unique  bool
	balance bool
}

func (c zzCfg) String() string {
	return fmt.Sprintf("slot=%d,unique=%v,balance=%v", c.slot, c.unique, c.balance)
}

func zzNewTree(c zzCfg) BtreeInterface[int, int] {
	so := sop.StoreOptions{SlotLength: c.slot, IsUnique: c.unique, IsValueDataInNodeSegment: true, LeafLoadBalancing: c.balance}
	s := sop.NewStoreInfo(so)
	si := btree.StoreInterface[int, int]{
		NodeRepository:    newNodeRepository[int, int](),
		ItemActionTracker: newDumbItemActionTracker[int, int](),
	}
	b3, _ := btree.New[int, int](s, &si, nil)
	return BtreeInterface[int, int]{Btree: b3}
}

type zzPair struct{ k, v int }

// an operation: kind 0 = Add(k), 1 = Remove(k)
type zzOp struct{ kind, k int }

func (o zzOp) String() string {
	if o.kind == 0 {
		return fmt.Sprintf("A%d", o.k)
	}
	return fmt.Sprintf("R%d", o.k)
}

func zzSeqString(ops []zzOp) string {
	var p []string
	for _, o := range ops {
		p = append(p, o.String())
	}
	return strings.Join(p, " ")
}

// zzRun replays ops on a fresh tree and returns "" or a description of the first disagreement with the model,
// tagged with the properties it concerns.
func zzRun(c zzCfg, ops []zzOp, keyDomain int) (props string, detail string) {
	defer func() {
		if r := recover(); r != nil {
			props, detail = "C17,C18,C05,C06", fmt.Sprintf("panic: %v", r)
		}
	}()
	b3 := zzNewTree(c)
	model := map[zzPair]bool{}
	countKey := func(k int) int {
		n := 0
		for p := range model {
			if p.k == k {
				n++
			}
		}
		return n
	}
	for step, o := range ops {
		at := fmt.Sprintf("after op %d (%s)", step+1, o)
		var added, removedKey = -1, -1
		switch o.kind {
		case 0:
			v := o.k*1000 + step
			want := !(c.unique && countKey(o.k) > 0)
			got := b3.Add(o.k, v)
			if got != want {
				return "C05,C17", fmt.Sprintf("%s: Add returned %v, model says %v", at, got, want)
			}
			if got {
				model[zzPair{o.k, v}] = true
				added = v
			}
		case 1:
			want := countKey(o.k) > 0
			got := b3.Remove(o.k)
			if got != want {
				return "C17", fmt.Sprintf("%s: Remove returned %v, model says %v", at, got, want)
			}
			if got {
				removedKey = o.k
			}
		}
		_ = added
		// forward scan
		var fwd []zzPair
		if b3.First() {
			for {
				fwd = append(fwd, zzPair{b3.GetCurrentKey(), b3.GetCurrentValue()})
				if len(fwd) > len(model)+len(ops)+2 {
					return "C17", fmt.Sprintf("%s: forward scan does not terminate", at)
				}
				if !b3.Next() {
					break
				}
			}
		}
		// the removed pair is whichever pair with that key disappeared
		if removedKey >= 0 {
			seen := map[zzPair]bool{}
			for _, p := range fwd {
				seen[p] = true
			}
			var gone []zzPair
			for p := range model {
				if !seen[p] {
					gone = append(gone, p)
				}
			}
			if len(gone) != 1 || gone[0].k != removedKey {
				return "C17,C06", fmt.Sprintf("%s: Remove(%d) made %v disappear from the scan %v", at, removedKey, gone, fwd)
			}
			delete(model, gone[0])
		}
		if len(fwd) != len(model) {
			return "C17,C06", fmt.Sprintf("%s: forward scan has %d items %v, model has %d", at, len(fwd), fwd, len(model))
		}
		dup := map[zzPair]bool{}
		for i, p := range fwd {
			if !model[p] || dup[p] {
				return "C17", fmt.Sprintf("%s: forward scan item %v is not in the model or appears twice (scan %v)", at, p, fwd)
			}
			dup[p] = true
			if i > 0 && fwd[i-1].k > p.k {
				return "C17", fmt.Sprintf("%s: forward scan out of order: %v", at, fwd)
			}
			if c.unique && i > 0 && fwd[i-1].k == p.k {
				return "C05", fmt.Sprintf("%s: unique store scans two items with key %d: %v", at, p.k, fwd)
			}
		}
		if n := b3.Count(); n != len(model) {
			return "C06", fmt.Sprintf("%s: Count() = %d, store holds %d items", at, n, len(model))
		}
		// backward scan is the forward scan reversed
		var bwd []zzPair
		if b3.Last() {
			for {
				bwd = append(bwd, zzPair{b3.GetCurrentKey(), b3.GetCurrentValue()})
				if len(bwd) > len(model)+len(ops)+2 {
					return "C17", fmt.Sprintf("%s: backward scan does not terminate", at)
				}
				if !b3.Previous() {
					break
				}
			}
		}
		if len(bwd) != len(fwd) {
			return "C17", fmt.Sprintf("%s: backward scan %v vs forward scan %v", at, bwd, fwd)
		}
		for i := range bwd {
			if bwd[i] != fwd[len(fwd)-1-i] {
				return "C17", fmt.Sprintf("%s: backward scan %v is not the reverse of the forward scan %v", at, bwd, fwd)
			}
		}
		// range scans (C18: "search positions the cursor for exact range scans"): Range(from, to) delivers exactly the
		// items with from <= key <= to in scan order, RangeDesc(hi, lo) the same items backwards; bounds that are not
		// keys of the store (misses, below the first key, past the last key) included
		for from := -1; from <= keyDomain; from++ {
			for _, width := range []int{0, 1, keyDomain} {
				to := from + width
				var want []zzPair
				for _, p := range fwd {
					if p.k >= from && p.k <= to {
						want = append(want, p)
					}
				}
				var got []zzPair
				for k, v := range b3.Range(from, to) {
					got = append(got, zzPair{k, v})
					if len(got) > len(fwd)+2 {
						break
					}
				}
				if len(got) != len(want) {
					return "C18", fmt.Sprintf("%s: Range(%d, %d) delivers %v, the store holds %v in that range (scan %v)", at, from, to, got, want, fwd)
				}
				for i := range got {
					if got[i] != want[i] {
						return "C18", fmt.Sprintf("%s: Range(%d, %d) delivers %v, the store holds %v in that range", at, from, to, got, want)
					}
				}
				var gotD []zzPair
				for k, v := range b3.RangeDesc(to, from) {
					gotD = append(gotD, zzPair{k, v})
					if len(gotD) > len(fwd)+2 {
						break
					}
				}
				if len(gotD) != len(want) {
					return "C18", fmt.Sprintf("%s: RangeDesc(%d, %d) delivers %v, the store holds %v in that range (scan %v)", at, to, from, gotD, want, fwd)
				}
				for i := range gotD {
					if gotD[i] != want[len(want)-1-i] {
						return "C18", fmt.Sprintf("%s: RangeDesc(%d, %d) delivers %v, the store holds %v in that range", at, to, from, gotD, want)
					}
				}
			}
		}
		// searches
		for k := 0; k < keyDomain; k++ {
			first := -1
			last := -1
			for i, p := range fwd {
				if p.k == k {
					if first < 0 {
						first = i
					}
					last = i
				}
			}
			exists := first >= 0
			if got := b3.Find(k, false); got != exists {
				return "C18", fmt.Sprintf("%s: Find(%d) = %v, scan %v", at, k, got, fwd)
			} else if got && b3.GetCurrentKey() != k {
				return "C18", fmt.Sprintf("%s: Find(%d) positioned on key %d", at, k, b3.GetCurrentKey())
			}
			if got := b3.Find(k, true); got != exists {
				return "C18", fmt.Sprintf("%s: Find(%d, first) = %v, scan %v", at, k, got, fwd)
			} else if got {
				cur := zzPair{b3.GetCurrentKey(), b3.GetCurrentValue()}
				if cur != fwd[first] {
					return "C18", fmt.Sprintf("%s: Find(%d, first) positioned on %v, the first item with that key is %v (scan %v)", at, k, cur, fwd[first], fwd)
				}
				// walking on from there yields the rest of the scan
				j := first
				for b3.Next() {
					j++
					if j >= len(fwd) || (zzPair{b3.GetCurrentKey(), b3.GetCurrentValue()}) != fwd[j] {
						return "C18", fmt.Sprintf("%s: Next after Find(%d, first) leaves the scan order at position %d (scan %v)", at, k, j, fwd)
					}
				}
				if j != len(fwd)-1 {
					return "C18", fmt.Sprintf("%s: Next after Find(%d, first) stops at position %d of %d", at, k, j, len(fwd))
				}
			} else if len(fwd) > 0 {
				// a miss leaves the cursor where a range scan can continue: on the smallest item greater than k, or at the end
				_ = last
			}
			if got := b3.FindInDescendingOrder(k); got != exists {
				return "C18", fmt.Sprintf("%s: FindInDescendingOrder(%d) = %v, scan %v", at, k, got, fwd)
			} else if got {
				cur := zzPair{b3.GetCurrentKey(), b3.GetCurrentValue()}
				if cur != fwd[last] {
					return "C18", fmt.Sprintf("%s: FindInDescendingOrder(%d) positioned on %v, the last item with that key is %v (scan %v)", at, k, cur, fwd[last], fwd)
				}
			}
		}
	}
	return "", ""
}

func zzReport(id, props, detail string) {
	if props == "" {
		fmt.Printf("BOUNDED-PASS id=%s\n", id)
		return
	}
	fmt.Printf("BOUNDED-FAIL id=%s props=%s :: %s\n", id, props, detail)
}

func TestZZBoundedBtreeTree(t *testing.T) {
	thorough := os.Getenv("GOVC_TIER") == "thorough"
	K, L := 4, 5
	nRandom, lenRandom := 300, 60
	if thorough {
		K, L = 4, 6
		nRandom, lenRandom = 3000, 80
	}
	var cfgs []zzCfg
	for _, slot := range []int{2, 4} {
		for _, unique := range []bool{true, false} {
			for _, balance := range []bool{false, true} {
				cfgs = append(cfgs, zzCfg{slot, unique, balance})
			}
		}
	}
	// part A: exhaustive
	var alphabet []zzOp
	for k := 0; k < K; k++ {
		alphabet = append(alphabet, zzOp{0, k}, zzOp{1, k})
	}
	for _, c := range cfgs {
		evaluated, nontrivial, failures := 0, 0, 0
		seq := make([]zzOp, 0, L)
		var rec func()
		rec = func() {
			if failures >= 3 {
				return
			}
			if len(seq) == L {
				evaluated++
				// non-trivial: the sequence adds at least three items before its last removal (so that a node split happened)
				adds := 0
				for _, o := range seq {
					if o.kind == 0 {
						adds++
					}
				}
				if adds >= 3 {
					nontrivial++
				}
				if props, detail := zzRun(c, seq, K); props != "" {
					failures++
					zzReport(fmt.Sprintf("btree-tree/A/%s/%s", c, strings.ReplaceAll(zzSeqString(seq), " ", "_")), props, detail)
				}
				return
			}
			for _, o := range alphabet {
				seq = append(seq, o)
				rec()
				seq = seq[:len(seq)-1]
			}
		}
		rec()
		fmt.Printf("BOUNDED-SUMMARY harness=btree-tree part=A/%s evaluated=%d distinct=%d exhaustive=true bound=\"every sequence of exactly %d operations Add(k)/Remove(k), k in 0..%d (prefixes are checked after every operation)\"\n", c, evaluated, nontrivial, L, K-1)
	}
	// part B: sampled, load balancing off
	for _, c := range cfgs {
		if c.balance && c.slot == 2 {
			// slot length 2 with load balancing carries the known finding of part C: sampled runs would hit the same root
			// cause through ever different inputs
			continue
		}
		evaluated, failures := 0, 0
		distinct := map[string]bool{}
		for seed := 0; seed < nRandom && failures < 3; seed++ {
			r := rand.New(rand.NewSource(int64(seed)*7919 + int64(c.slot)))
			dom := 8 + seed%13
			removeBias := 3 + seed%5 // out of 10
			var seq []zzOp
			for i := 0; i < lenRandom; i++ {
				if r.Intn(10) < removeBias {
					seq = append(seq, zzOp{1, r.Intn(dom)})
				} else {
					seq = append(seq, zzOp{0, r.Intn(dom)})
				}
			}
			evaluated++
			distinct[zzSeqString(seq)] = true
			if props, detail := zzRun(c, seq, dom); props != "" {
				failures++
				zzReport(fmt.Sprintf("btree-tree/B/%s/seed%d", c, seed), props, detail+" [sequence: "+zzSeqString(seq)+"]")
			}
		}
		fmt.Printf("BOUNDED-SUMMARY harness=btree-tree part=B/%s evaluated=%d distinct=%d exhaustive=false bound=\"%d fixed pseudo-random sequences of %d operations over 8..20 keys\"\n", c, evaluated, len(distinct), nRandom, lenRandom)
	}
	// part C: canaries (known findings are listed in /verif/known_findings.json by these ids)
	canaries := []struct {
		id  string
		c   zzCfg
		seq string
	}{
		{"btree-tree/C/slot2-balanced-unique-zero-item", zzCfg{2, true, true}, "A2 A1 A11 A7 A12 A0 R0 A10 A13 R1 A5"},
	}
	for _, cn := range canaries {
		var seq []zzOp
		maxK := 0
		for _, f := range strings.Fields(cn.seq) {
			var k int
			fmt.Sscanf(f[1:], "%d", &k)
			kind := 0
			if f[0] == 'R' {
				kind = 1
			}
			seq = append(seq, zzOp{kind, k})
			if k > maxK {
				maxK = k
			}
		}
		props, detail := zzRun(cn.c, seq, maxK+1)
		zzReport(cn.id, props, detail)
	}
	fmt.Printf("BOUNDED-SUMMARY harness=btree-tree part=C evaluated=%d distinct=%d exhaustive=false bound=\"named canary sequences\"\n", len(canaries), len(canaries))
	_ = sort.Ints
}
