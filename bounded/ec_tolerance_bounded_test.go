package fs

// BOUNDED STAND-IN (not a proof): the write-side tolerance and the read-back of the erasure-coded blob store.
// Injected into /repo/fs with `go test -overlay` by /verif/bin/govc (see /verif/bounded/bounded.json).
// BlobStoreWithEC.Add counts failed shard writes through a channel filled by goroutines and drained with select - outside
// the verifiable subset - so this part of C25 ("a write that is acknowledged can be read back with up to p shards lost; a
// write that lost more than p shards is not acknowledged") is explored on the real code instead:
// for (data, parity) in {(1,1), (2,1), (2,2), (3,2)}, a batch of one or two blobs of several sizes, and EVERY combination
// of failing shard writes per blob (exhaustive within that bound): Add must fail iff some blob lost more than p shards;
// after an acknowledged Add every blob reads back exactly, also after further shard files are deleted or damaged up to a
// total of p per blob, and is never returned wrongly when p+1 are gone.

import (
	"bytes"
	"context"
	"errors"
	"fmt"
	"os"
	"path/filepath"
	"strings"
	"testing"

	"github.com/sharedcode/sop"
)

type zzFailingFileIO struct {
	FileIO
	// fail[blob id string] = set of shard indexes whose write fails
	fail map[string]map[int]bool
}

func (f *zzFailingFileIO) WriteFile(ctx context.Context, name string, data []byte, perm os.FileMode) error {
	base := filepath.Base(name)
	if k := strings.LastIndex(base, "_"); k > 0 {
		var idx int
		if _, err := fmt.Sscanf(base[k+1:], "%d", &idx); err == nil {
			if f.fail[base[:k]][idx] {
				return errors.New("injected: drive write failed")
			}
		}
	}
	return f.FileIO.WriteFile(ctx, name, data, perm)
}

func zzShardFile(dir, table string, id sop.UUID, idx int) string {
	return fmt.Sprintf("%s%c%s_%d", DefaultToFilePath(filepath.Join(dir, table), id), os.PathSeparator, id.String(), idx)
}

func TestZZBoundedECTolerance(t *testing.T) {
	ctx := context.Background()
	type dp struct{ d, p int }
	cfgs := []dp{{1, 1}, {2, 1}, {2, 2}, {3, 2}}
	thorough := os.Getenv("GOVC_TIER") == "thorough"
	sizes := []int{1, 5, 64}
	if thorough {
		sizes = []int{1, 2, 3, 5, 16, 64, 255, 1000, 4097}
	}
	for _, c := range cfgs {
		n := c.d + c.p
		evaluated, nontrivial, failures := 0, 0, 0
		report := func(id, props, detail string) {
			failures++
			fmt.Printf("BOUNDED-FAIL id=%s props=%s :: %s\n", id, props, detail)
		}
		for _, nBlobs := range []int{1, 2} {
			for si, size := range sizes {
				if nBlobs == 2 && si > 0 && !thorough {
					continue // quick: two-blob batches for the first size only
				}
				masks := 1 << n
				total := masks
				if nBlobs == 2 {
					total = masks * masks
				}
				for combo := 0; combo < total && failures < 3; combo++ {
					fm := []int{combo % masks, combo / masks}
					evaluated++
					id := fmt.Sprintf("ec-tolerance/d%dp%d/blobs%d/size%d/fail%v", c.d, c.p, nBlobs, size, fm[:nBlobs])
					id = strings.ReplaceAll(id, " ", ",")
					var dirs []string
					root, _ := os.MkdirTemp("", "zzec")
					for i := 0; i < n; i++ {
						dirs = append(dirs, filepath.Join(root, fmt.Sprintf("drive%d", i)))
					}
					fio := &zzFailingFileIO{FileIO: NewFileIO(), fail: map[string]map[int]bool{}}
					bs, err := NewBlobStoreWithEC(nil, fio, map[string]sop.ErasureCodingConfig{"tbl": {DataShardsCount: c.d, ParityShardsCount: c.p, BaseFolderPathsAcrossDrives: dirs}})
					if err != nil {
						report(id, "C25", "NewBlobStoreWithEC: "+err.Error())
						os.RemoveAll(root)
						continue
					}
					payload := sop.BlobsPayload[sop.KeyValuePair[sop.UUID, []byte]]{BlobTable: "tbl"}
					var ids []sop.UUID
					var datas [][]byte
					lost := make([]int, nBlobs)
					intolerable := false
					for b := 0; b < nBlobs; b++ {
						bid := sop.NewUUID()
						data := make([]byte, size+b)
						for i := range data {
							data[i] = byte(31*i + 7*b + si + 1)
						}
						fio.fail[bid.String()] = map[int]bool{}
						for k := 0; k < n; k++ {
							if fm[b]&(1<<k) != 0 {
								fio.fail[bid.String()][k] = true
								lost[b]++
							}
						}
						if lost[b] > c.p {
							intolerable = true
						}
						ids = append(ids, bid)
						datas = append(datas, data)
						payload.Blobs = append(payload.Blobs, sop.KeyValuePair[sop.UUID, []byte]{Key: bid, Value: data})
					}
					if intolerable || lost[0] > 0 {
						nontrivial++
					}
					err = bs.Add(ctx, []sop.BlobsPayload[sop.KeyValuePair[sop.UUID, []byte]]{payload})
					if intolerable {
						if err == nil {
							report(id, "C25", fmt.Sprintf("Add acknowledged a batch in which a blob lost %v shard writes (parity %d)", lost, c.p))
						}
						os.RemoveAll(root)
						continue
					}
					if err != nil {
						report(id, "C25", fmt.Sprintf("Add failed although every blob lost at most parity (%d) shard writes %v: %v", c.p, lost, err))
						os.RemoveAll(root)
						continue
					}
					for b := 0; b < nBlobs; b++ {
						got, err := bs.GetOne(ctx, "tbl", ids[b])
						if err != nil || !bytes.Equal(got, datas[b]) {
							report(id, "C25", fmt.Sprintf("blob %d (lost %d <= parity %d) does not read back: err=%v equal=%v", b, lost[b], c.p, err, bytes.Equal(got, datas[b])))
							break
						}
						// lose further shard files up to parity in total: still exact
						removed := lost[b]
						for k := 0; k < n && removed < c.p; k++ {
							if !fio.fail[ids[b].String()][k] {
								if removed%2 == 0 {
									os.Remove(zzShardFile(dirs[k], "tbl", ids[b], k))
								} else if fb, err := os.ReadFile(zzShardFile(dirs[k], "tbl", ids[b], k)); err == nil && len(fb) > 0 {
									fb[len(fb)-1] ^= 0x40 // bit rot in the shard body
									os.WriteFile(zzShardFile(dirs[k], "tbl", ids[b], k), fb, 0o644)
								}
								fio.fail[ids[b].String()][k] = true
								removed++
							}
						}
						got, err = bs.GetOne(ctx, "tbl", ids[b])
						if err != nil || !bytes.Equal(got, datas[b]) {
							report(id, "C25,C26", fmt.Sprintf("blob %d with %d damaged/missing shards (parity %d) does not read back: err=%v equal=%v", b, removed, c.p, err, bytes.Equal(got, datas[b])))
							break
						}
						// one more shard gone: an error, never wrong bytes
						for k := 0; k < n; k++ {
							if !fio.fail[ids[b].String()][k] {
								os.Remove(zzShardFile(dirs[k], "tbl", ids[b], k))
								break
							}
						}
						got, err = bs.GetOne(ctx, "tbl", ids[b])
						if err == nil && !bytes.Equal(got, datas[b]) {
							report(id, "C25", fmt.Sprintf("blob %d with more than parity shards gone was returned with WRONG bytes and no error", b))
							break
						}
					}
					os.RemoveAll(root)
				}
			}
		}
		fmt.Printf("BOUNDED-SUMMARY harness=ec-tolerance part=d%dp%d evaluated=%d distinct=%d exhaustive=true bound=\"one-blob batches of %d sizes and two-blob batches (quick tier: first size only), every combination of failing shard writes per blob (2^%d each); read back after damage up to parity and beyond\"\n", c.d, c.p, evaluated, nontrivial, len(sizes), n)
	}
}
