package jsondb

// BOUNDED STAND-IN (not a proof): the order of JSON map keys AS SEEN BY ONE COMPARER INSTANCE is a consistent total preorder.
// Injected into /repo/jsondb with `go test -overlay` by /verif/bin/govc (see /verif/bounded/bounded.json).
// The contracts of C30 decide the other half of the statement (the result does not depend on which keys were compared
// earlier - a known finding on this tree). What no single-call contract states is a property of PAIRS and TRIPLES of calls:
// reflexivity, antisymmetry (as a three-way comparison) and transitivity. They are checked here exhaustively over a small
// domain of JSON-typed keys (field missing, null, booleans, numbers, strings; one- and two-field specifications, ascending
// and descending) for EVERY choice of the first key an instance compares (the comparer is chosen from it).

import (
	"fmt"
	"testing"
)

func zzSign(x int) int {
	if x < 0 {
		return -1
	}
	if x > 0 {
		return 1
	}
	return 0
}

func zzKeyString(k map[string]any) string {
	return fmt.Sprintf("%#v", k)
}

func TestZZBoundedJsonKeyOrder(t *testing.T) {
	vals := []any{nil, false, true, -5.0, 0.0, 7.5, "", "a", "b"}
	var dom []map[string]any
	dom = append(dom, map[string]any{"tag": "x"}) // field id missing
	for _, v := range vals {
		dom = append(dom, map[string]any{"id": v, "tag": "x"})
	}
	dom = append(dom, map[string]any{"id": 0.0, "tag": "y"}, map[string]any{"id": "a", "tag": nil})
	type cmpFn func(a, b map[string]any) int
	type variant struct {
		name string
		mk   func() cmpFn
	}
	variants := []variant{
		{"indexspec-id-asc", func() cmpFn {
			s := NewIndexSpecification([]IndexFieldSpecification{{FieldName: "id", AscendingSortOrder: true}})
			return s.Comparer
		}},
		{"indexspec-id-desc", func() cmpFn {
			s := NewIndexSpecification([]IndexFieldSpecification{{FieldName: "id", AscendingSortOrder: false}})
			return s.Comparer
		}},
		{"indexspec-id-asc-tag-desc", func() cmpFn {
			s := NewIndexSpecification([]IndexFieldSpecification{{FieldName: "id", AscendingSortOrder: true}, {FieldName: "tag", AscendingSortOrder: false}})
			return s.Comparer
		}},
		{"default-comparer", func() cmpFn {
			j := &JsonDBMapKey{}
			return j.defaultComparer
		}},
	}
	for _, v := range variants {
		evaluated, failures := 0, 0
		for wi, warm := range dom {
			if failures >= 3 {
				break
			}
			// a fresh instance whose first comparison has `warm` on the left
			cmp := v.mk()
			cmp(warm, dom[(wi+1)%len(dom)])
			n := len(dom)
			m := make([][]int, n)
			for i := range dom {
				m[i] = make([]int, n)
				for j := range dom {
					m[i][j] = zzSign(cmp(dom[i], dom[j]))
					evaluated++
				}
			}
			id := fmt.Sprintf("jsondb-order/%s/first-key-%d", v.name, wi)
			fail := func(detail string) {
				failures++
				fmt.Printf("BOUNDED-FAIL id=%s props=C30 :: %s (first key compared by this instance: %s)\n", id, detail, zzKeyString(warm))
			}
		check:
			for i := range dom {
				if m[i][i] != 0 {
					fail(fmt.Sprintf("cmp(k,k) = %d for k = %s", m[i][i], zzKeyString(dom[i])))
					break check
				}
				for j := range dom {
					if m[i][j] != -m[j][i] {
						fail(fmt.Sprintf("cmp(a,b) = %d but cmp(b,a) = %d for a = %s, b = %s", m[i][j], m[j][i], zzKeyString(dom[i]), zzKeyString(dom[j])))
						break check
					}
					if again := zzSign(cmp(dom[i], dom[j])); again != m[i][j] {
						fail(fmt.Sprintf("cmp(a,b) answered %d then %d for a = %s, b = %s", m[i][j], again, zzKeyString(dom[i]), zzKeyString(dom[j])))
						break check
					}
					for k := range dom {
						if m[i][j] <= 0 && m[j][k] <= 0 && m[i][k] > 0 {
							fail(fmt.Sprintf("a <= b and b <= c but a > c for a = %s, b = %s, c = %s", zzKeyString(dom[i]), zzKeyString(dom[j]), zzKeyString(dom[k])))
							break check
						}
					}
				}
			}
		}
		fmt.Printf("BOUNDED-SUMMARY harness=jsondb-order part=%s evaluated=%d distinct=%d exhaustive=true bound=\"%d JSON-typed keys (field missing, null, booleans, numbers, strings, two fields), every first-compared key, all pairs and triples\"\n", v.name, evaluated, evaluated, len(dom))
	}
}
