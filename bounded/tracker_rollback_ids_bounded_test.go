package common

// BOUNDED STAND-IN (not a proof) for one function: itemActionTracker.getForRollbackTrackedItemsValues.
// Injected into /repo/common with `go test -overlay` by /verif/bin/govc (see /verif/bounded/bounded.json).
// The function ranges over a Go map and rewrites the entries while iterating; the verifier models a map range as "any present
// key, any number of times", under which the clause that matters for C10 - the value blobs listed for deletion on rollback
// are the STAGED (temporary) ids of added/updated items, never the original ids the committed tree still refers to - cannot
// be carried through the loop. It is enumerated instead: every tracker state with up to 3 items, each with one of the four
// actions and either its original id or a temporary one (exhaustive within that bound).

import (
	"fmt"
	"sort"
	"testing"

	"github.com/sharedcode/sop"
	"github.com/sharedcode/sop/btree"
	"github.com/sharedcode/sop/common/mocks"
)

func TestZZBoundedTrackerRollbackIDs(t *testing.T) {
	actions := []actionType{getAction, addAction, updateAction, removeAction}
	evaluated, nontrivial, failures := 0, 0, 0
	for _, inNode := range []bool{false, true} {
		for n := 0; n <= 3; n++ {
			total := 1
			for i := 0; i < n; i++ {
				total *= len(actions) * 2
			}
			for code := 0; code < total && failures < 3; code++ {
				so := sop.StoreOptions{Name: "zzr", SlotLength: 8, IsValueDataInNodeSegment: inNode}
				si := sop.NewStoreInfo(so)
				trk := newItemActionTracker[int, string](si, mocks.NewMockClient(), mocks.NewMockBlobStore(), newTransactionLogger(mocks.NewMockTransactionLog(), false))
				trk.forDeletionItems = []sop.UUID{sop.NewUUID()}
				c := code
				var wantListed []string
				keys := map[sop.UUID]*btree.Item[int, string]{}
				desc := ""
				anyTemp := false
				for i := 0; i < n; i++ {
					a := actions[c%len(actions)]
					c /= len(actions)
					temp := c%2 == 1
					c /= 2
					key := sop.NewUUID()
					it := &btree.Item[int, string]{ID: key, Key: i}
					if temp {
						it.ID = sop.NewUUID() // staged id: the value of this item was rewritten under a fresh id
						anyTemp = true
					}
					if a == addAction || a == updateAction {
						wantListed = append(wantListed, it.ID.String())
					}
					trk.items[key] = cacheItem[int, string]{lockRecord: lockRecord{LockID: sop.NewUUID(), Action: a}, item: it}
					keys[key] = it
					desc += fmt.Sprintf("[action %d temp %v]", a, temp)
				}
				evaluated++
				if anyTemp {
					nontrivial++ // non-trivial: some item carries a staged id that differs from its key
				}
				id := fmt.Sprintf("tracker-rollback-ids/innode=%v/n%d/code%d", inNode, n, code)
				got := trk.getForRollbackTrackedItemsValues()
				if inNode {
					if got != nil {
						failures++
						fmt.Printf("BOUNDED-FAIL id=%s props=C10,C11 :: values live in the node, yet value blobs are listed for deletion: %v %s\n", id, got.Blobs, desc)
					}
					continue
				}
				if got == nil {
					failures++
					fmt.Printf("BOUNDED-FAIL id=%s props=C10,C11 :: nothing returned for a store with separate value blobs %s\n", id, desc)
					continue
				}
				var listed []string
				for _, b := range got.Blobs {
					listed = append(listed, b.String())
				}
				sort.Strings(listed)
				sort.Strings(wantListed)
				if fmt.Sprint(listed) != fmt.Sprint(wantListed) {
					failures++
					fmt.Printf("BOUNDED-FAIL id=%s props=C10,C11 :: the rollback lists %d value blobs that are not exactly the current (staged) ids of the added/updated items: listed %v, staged %v %s\n", id, len(listed), listed, wantListed, desc)
					continue
				}
				for key, it := range keys {
					ci := trk.items[key]
					if (ci.Action == addAction || ci.Action == updateAction) && it.ID != key {
						failures++
						fmt.Printf("BOUNDED-FAIL id=%s props=C10 :: after the rollback list was taken the item still carries its staged id (the tree would keep pointing at a deleted blob) %s\n", id, desc)
						break
					}
				}
				if got.BlobTable != si.BlobTable {
					failures++
					fmt.Printf("BOUNDED-FAIL id=%s props=C10,C11 :: wrong blob table %q\n", id, got.BlobTable)
				}
			}
		}
	}
	fmt.Printf("BOUNDED-SUMMARY harness=tracker-rollback-ids part=all evaluated=%d distinct=%d exhaustive=true bound=\"every tracker state with 0..3 items, each with one of 4 actions and its original or a staged id, for stores with values in the node and apart\"\n", evaluated, nontrivial)
}
