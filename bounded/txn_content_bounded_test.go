package infs

// BOUNDED STAND-IN (not a proof): what a store holds after a sequence of committed and rolled-back transactions, through
// the real commit pipeline (common) over the real file-system backends (fs), against a map model.
// Injected into /repo/infs with `go test -overlay` by /verif/bin/govc (see /verif/bounded/bounded.json).
// The steps of the pipeline are under contract (C01/C03/C06/C07/C10/C11/C19); that the steps compose to "the store holds
// exactly the committed writes" is not something a per-function contract states. This harness samples that composition:
// a FIXED set of pseudo-random histories (fixed seeds: every run explores the same cases; NOT exhaustive) per value-placement
// configuration; after every transaction a fresh reading transaction scans the whole store.

import (
	"context"
	"fmt"
	"math/rand"
	"os"
	"sort"
	"strings"
	"testing"

	"github.com/sharedcode/sop"
	"github.com/sharedcode/sop/btree"
	"github.com/sharedcode/sop/cache"
	"github.com/sharedcode/sop/common"
	"github.com/sharedcode/sop/fs"
)

type zzTxCfg struct {
	name string
	so   sop.StoreOptions
}

func zzTxBegin(ctx context.Context, folder string, l2 sop.L2Cache, mode sop.TransactionMode) (sop.Transaction, error) {
	rt, err := fs.NewReplicationTracker(ctx, []string{folder}, false, l2)
	if err != nil {
		return nil, err
	}
	sr, err := fs.NewStoreRepository(ctx, rt, fs.NewManageStoreFolder(fs.NewFileIO()), l2, 0)
	if err != nil {
		return nil, err
	}
	hashMod := 0
	if i, err := sr.GetRegistryHashModValue(ctx); err == nil && i > 0 {
		hashMod = i
	}
	tl := fs.NewTransactionLog(l2, rt)
	twoPT, err := common.NewTwoPhaseCommitTransaction(mode, -1, fs.NewBlobStore(folder, nil, nil), sr, fs.NewRegistry(mode == sop.ForWriting, hashMod, rt, l2), l2, tl)
	if err != nil {
		return nil, err
	}
	rt.SetTransactionID(twoPT.GetID())
	trans, err := sop.NewTransaction(mode, twoPT)
	if err != nil {
		return nil, err
	}
	if err := trans.Begin(ctx); err != nil {
		return nil, err
	}
	return trans, nil
}

// zzTxHistory runs one history; returns "" or (props, detail) of the first disagreement with the model.
func zzTxHistory(cfg zzTxCfg, seed int64, nTx, maxOps, keys int) (props, detail, trace string) {
	defer func() {
		if r := recover(); r != nil {
			props, detail = "C01,C06,C19", fmt.Sprintf("panic: %v", r)
		}
	}()
	ctx := context.Background()
	folder, err := os.MkdirTemp("", "zzbounded")
	if err != nil {
		return "C01", "tmp dir: " + err.Error(), ""
	}
	defer os.RemoveAll(folder)
	l2 := cache.NewL2InMemoryCache()
	r := rand.New(rand.NewSource(seed))
	committed := map[int]string{}
	var tr []string
	so := cfg.so
	so.Name = "zzb"
	created := false
	for txi := 0; txi < nTx; txi++ {
		t, err := zzTxBegin(ctx, folder, l2, sop.ForWriting)
		if err != nil {
			return "C01", "begin: " + err.Error(), strings.Join(tr, " ")
		}
		var b3 btree.BtreeInterface[int, string]
		if !created {
			b3, err = NewBtree[int, string](ctx, so, t, nil)
		} else {
			b3, err = OpenBtree[int, string](ctx, "zzb", t, nil)
		}
		if err != nil {
			return "C01,C12", fmt.Sprintf("tx %d: opening the store: %v", txi, err), strings.Join(tr, " ")
		}
		local := map[int]string{}
		for k, v := range committed {
			local[k] = v
		}
		nOps := 1 + r.Intn(maxOps)
		tr = append(tr, "[")
		for oi := 0; oi < nOps; oi++ {
			k := r.Intn(keys)
			v := fmt.Sprintf("v%d.%d.%d", txi, oi, k)
			_, exists := local[k]
			switch r.Intn(4) {
			case 0, 1:
				tr = append(tr, fmt.Sprintf("A%d", k))
				ok, err := b3.Add(ctx, k, v)
				if err != nil || ok != !exists {
					return "C05,C19", fmt.Sprintf("tx %d: Add(%d) = %v, %v; the key exists: %v", txi, k, ok, err, exists), strings.Join(tr, " ")
				}
				if ok {
					local[k] = v
				}
			case 2:
				tr = append(tr, fmt.Sprintf("U%d", k))
				ok, err := b3.Update(ctx, k, v)
				if err != nil || ok != exists {
					return "C19", fmt.Sprintf("tx %d: Update(%d) = %v, %v; the key exists: %v", txi, k, ok, err, exists), strings.Join(tr, " ")
				}
				if ok {
					local[k] = v
				}
			case 3:
				tr = append(tr, fmt.Sprintf("R%d", k))
				ok, err := b3.Remove(ctx, k)
				if err != nil || ok != exists {
					return "C19", fmt.Sprintf("tx %d: Remove(%d) = %v, %v; the key exists: %v", txi, k, ok, err, exists), strings.Join(tr, " ")
				}
				delete(local, k)
			}
		}
		if r.Intn(5) == 0 {
			tr = append(tr, "rollback]")
			if err := t.Rollback(ctx); err != nil {
				return "C01,C07", fmt.Sprintf("tx %d: Rollback: %v", txi, err), strings.Join(tr, " ")
			}
			// (a rolled-back creation leaves no store: it is created again by the next transaction)
		} else {
			tr = append(tr, "commit]")
			if err := t.Commit(ctx); err != nil {
				return "C01,C07", fmt.Sprintf("tx %d: Commit: %v", txi, err), strings.Join(tr, " ")
			}
			committed = local
			created = true
		}
		if !created {
			continue
		}
		// a fresh reader sees exactly the committed content
		rt, err := zzTxBegin(ctx, folder, l2, sop.ForReading)
		if err != nil {
			return "C01", "reader begin: " + err.Error(), strings.Join(tr, " ")
		}
		rb, err := OpenBtree[int, string](ctx, "zzb", rt, nil)
		if err != nil {
			return "C01,C12", fmt.Sprintf("after tx %d: reader cannot open the store: %v", txi, err), strings.Join(tr, " ")
		}
		got := map[int]string{}
		var order []int
		if ok, err := rb.First(ctx); err != nil {
			return "C17,C01", fmt.Sprintf("after tx %d: First: %v", txi, err), strings.Join(tr, " ")
		} else if ok {
			for {
				k := rb.GetCurrentKey().Key
				v, err := rb.GetCurrentValue(ctx)
				if err != nil {
					return "C10,C19", fmt.Sprintf("after tx %d: value of key %d cannot be read: %v", txi, k, err), strings.Join(tr, " ")
				}
				if _, dup := got[k]; dup {
					return "C05,C17", fmt.Sprintf("after tx %d: key %d scanned twice", txi, k), strings.Join(tr, " ")
				}
				got[k] = v
				order = append(order, k)
				if len(order) > keys+2 {
					return "C17", fmt.Sprintf("after tx %d: scan does not end", txi), strings.Join(tr, " ")
				}
				ok, err := rb.Next(ctx)
				if err != nil {
					return "C17,C01", fmt.Sprintf("after tx %d: Next: %v", txi, err), strings.Join(tr, " ")
				}
				if !ok {
					break
				}
			}
		}
		if !sort.IntsAreSorted(order) {
			return "C17", fmt.Sprintf("after tx %d: scan out of order %v", txi, order), strings.Join(tr, " ")
		}
		if len(got) != len(committed) {
			return "C01,C19,C03", fmt.Sprintf("after tx %d: the store holds %v, the committed writes are %v", txi, got, committed), strings.Join(tr, " ")
		}
		for k, v := range committed {
			if got[k] != v {
				return "C01,C19,C03", fmt.Sprintf("after tx %d: key %d holds %q, committed %q (store %v)", txi, k, got[k], v, got), strings.Join(tr, " ")
			}
		}
		if int(rb.Count()) != len(committed) {
			return "C06", fmt.Sprintf("after tx %d: Count() = %d, the store holds %d items", txi, rb.Count(), len(committed)), strings.Join(tr, " ")
		}
		rt.Commit(ctx)
	}
	return "", "", strings.Join(tr, " ")
}

// zzTxGrowth grows a store by one key per committed transaction (scattered order, so that leaves and inner nodes split
// in the middle) and, every few commits, removes a key; after every commit a fresh reader scans the whole store.
// Every node is touched for the first time in its transaction - the situation in which a node that was changed but not
// handed to the repository goes unnoticed inside the writing transaction.
func zzTxGrowth(cfg zzTxCfg, nKeys int) (props, detail string) {
	defer func() {
		if r := recover(); r != nil {
			props, detail = "C17,C05,C06", fmt.Sprintf("panic: %v", r)
		}
	}()
	ctx := context.Background()
	folder, err := os.MkdirTemp("", "zzgrow")
	if err != nil {
		return "C01", "tmp dir: " + err.Error()
	}
	defer os.RemoveAll(folder)
	l2 := cache.NewL2InMemoryCache()
	so := cfg.so
	so.Name = "zzg"
	committed := map[int]bool{}
	for i := 0; i < nKeys; i++ {
		k := (i * 37) % 101 // scattered, distinct for i < 101
		t, err := zzTxBegin(ctx, folder, l2, sop.ForWriting)
		if err != nil {
			return "C01", "begin: " + err.Error()
		}
		var b3 btree.BtreeInterface[int, string]
		if i == 0 {
			b3, err = NewBtree[int, string](ctx, so, t, nil)
		} else {
			b3, err = OpenBtree[int, string](ctx, "zzg", t, nil)
		}
		if err != nil {
			return "C01,C12", fmt.Sprintf("growth tx %d: opening the store: %v", i, err)
		}
		if ok, err := b3.Add(ctx, k, fmt.Sprintf("g%d", k)); err != nil || !ok {
			return "C05,C17", fmt.Sprintf("growth tx %d: Add(%d) = %v, %v", i, k, ok, err)
		}
		if ok, err := b3.Add(ctx, k, "again"); err != nil || ok {
			return "C05", fmt.Sprintf("growth tx %d: a second Add(%d) on a unique store = %v, %v", i, k, ok, err)
		}
		committed[k] = true
		if i%7 == 6 {
			rk := ((i - 3) * 37) % 101
			if ok, err := b3.Remove(ctx, rk); err != nil || !ok {
				return "C17,C19", fmt.Sprintf("growth tx %d: Remove(%d) = %v, %v", i, rk, ok, err)
			}
			delete(committed, rk)
		}
		if err := t.Commit(ctx); err != nil {
			return "C01,C07", fmt.Sprintf("growth tx %d: Commit: %v", i, err)
		}
		rt, err := zzTxBegin(ctx, folder, l2, sop.ForReading)
		if err != nil {
			return "C01", "reader begin: " + err.Error()
		}
		rb, err := OpenBtree[int, string](ctx, "zzg", rt, nil)
		if err != nil {
			return "C01", fmt.Sprintf("after growth tx %d: reader cannot open the store: %v", i, err)
		}
		seen := map[int]bool{}
		prev, n := -1, 0
		if ok, err := rb.First(ctx); err != nil {
			return "C17", fmt.Sprintf("after growth tx %d: First: %v", i, err)
		} else if ok {
			for {
				key := rb.GetCurrentKey().Key
				if seen[key] {
					return "C05,C17", fmt.Sprintf("after growth tx %d: the scan delivers key %d twice", i, key)
				}
				if key <= prev {
					return "C17", fmt.Sprintf("after growth tx %d: the scan is out of order at key %d (after %d)", i, key, prev)
				}
				if !committed[key] {
					return "C17,C19", fmt.Sprintf("after growth tx %d: the scan delivers key %d which is not in the store", i, key)
				}
				seen[key] = true
				prev = key
				n++
				if n > nKeys+2 {
					return "C17", fmt.Sprintf("after growth tx %d: the scan does not end", i)
				}
				ok, err := rb.Next(ctx)
				if err != nil {
					return "C17", fmt.Sprintf("after growth tx %d: Next: %v", i, err)
				}
				if !ok {
					break
				}
			}
		}
		if n != len(committed) {
			return "C17,C01,C19", fmt.Sprintf("after growth tx %d: the scan delivers %d keys, %d were committed", i, n, len(committed))
		}
		if int(rb.Count()) != len(committed) {
			return "C06", fmt.Sprintf("after growth tx %d: Count() = %d, the store holds %d items", i, rb.Count(), len(committed))
		}
		rt.Commit(ctx)
	}
	return "", ""
}

// zzCanarySlot2: unique store with SlotLength 2. tx0: Add 3, Add 2, commit. tx1: Update 3, commit. tx2: Add 3 (refused:
// exists), Add 0 (the full root splits), Remove 0 must find the key it just added.
func zzCanarySlot2() (props, detail string) {
	defer func() {
		if r := recover(); r != nil {
			props, detail = "C17", fmt.Sprintf("panic: %v", r)
		}
	}()
	ctx := context.Background()
	folder, err := os.MkdirTemp("", "zzcanary")
	if err != nil {
		return "", ""
	}
	defer os.RemoveAll(folder)
	l2 := cache.NewL2InMemoryCache()
	t0, err := zzTxBegin(ctx, folder, l2, sop.ForWriting)
	if err != nil {
		return "C17", err.Error()
	}
	b3, err := NewBtree[int, string](ctx, sop.StoreOptions{Name: "zzc", SlotLength: 2, IsUnique: true, IsValueDataInNodeSegment: true}, t0, nil)
	if err != nil {
		return "C17", err.Error()
	}
	b3.Add(ctx, 3, "a")
	b3.Add(ctx, 2, "b")
	if err := t0.Commit(ctx); err != nil {
		return "C17", err.Error()
	}
	t1, _ := zzTxBegin(ctx, folder, l2, sop.ForWriting)
	b3, _ = OpenBtree[int, string](ctx, "zzc", t1, nil)
	b3.Update(ctx, 3, "u")
	if err := t1.Commit(ctx); err != nil {
		return "C17", err.Error()
	}
	t2, _ := zzTxBegin(ctx, folder, l2, sop.ForWriting)
	b3, _ = OpenBtree[int, string](ctx, "zzc", t2, nil)
	if ok, _ := b3.Add(ctx, 3, "dup"); ok {
		return "C05", "Add of an existing key into a unique store succeeded"
	}
	if ok, err := b3.Add(ctx, 0, "c"); !ok || err != nil {
		return "C17", fmt.Sprintf("Add(0) = %v, %v", ok, err)
	}
	if ok, err := b3.Remove(ctx, 0); !ok || err != nil {
		return "C17,C19", fmt.Sprintf("Remove(0) = %v, %v right after Add(0) = true in the same transaction", ok, err)
	}
	return "", ""
}

func TestZZBoundedTxnContent(t *testing.T) {
	thorough := os.Getenv("GOVC_TIER") == "thorough"
	nHist, nTx, maxOps, keys := 40, 5, 4, 6
	if thorough {
		nHist, nTx, maxOps, keys = 400, 6, 5, 8
	}
	cfgs := []zzTxCfg{
		{"value-in-node", sop.StoreOptions{SlotLength: 4, IsUnique: true, IsValueDataInNodeSegment: true}},
		{"value-in-own-segment", sop.StoreOptions{SlotLength: 4, IsUnique: true, IsValueDataInNodeSegment: false}},
		{"value-in-own-segment-cached", sop.StoreOptions{SlotLength: 4, IsUnique: true, IsValueDataInNodeSegment: false, IsValueDataGloballyCached: true}},
		{"value-actively-persisted", sop.StoreOptions{SlotLength: 4, IsUnique: true, IsValueDataActivelyPersisted: true}},
		{"value-actively-persisted-cached", sop.StoreOptions{SlotLength: 4, IsUnique: true, IsValueDataActivelyPersisted: true, IsValueDataGloballyCached: true}},
	}
	for _, c := range cfgs {
		evaluated, failures := 0, 0
		distinct := map[string]bool{}
		for h := 0; h < nHist && failures < 3; h++ {
			props, detail, trace := zzTxHistory(c, int64(h)*104729+17, nTx, maxOps, keys)
			evaluated++
			distinct[trace] = true
			if props != "" {
				failures++
				fmt.Printf("BOUNDED-FAIL id=txn-content/%s/seed%d props=%s :: %s [history: %s]\n", c.name, h, props, detail, trace)
			}
		}
		fmt.Printf("BOUNDED-SUMMARY harness=txn-content part=%s evaluated=%d distinct=%d exhaustive=false bound=\"%d fixed pseudo-random histories of %d transactions with 1..%d operations (Add/Update/Remove) over %d keys, each committed (4 in 5) or rolled back; slot length 4\"\n", c.name, evaluated, len(distinct), nHist, nTx, maxOps, keys)
	}
	// canary (known finding, listed in /verif/known_findings.json by this id): slot length 2, a refused duplicate Add
	// followed by an Add that splits the root, then Remove of the key just added
	{
		props, detail := zzCanarySlot2()
		if props == "" {
			fmt.Printf("BOUNDED-PASS id=txn-content/canary/slot2-refused-add-then-split\n")
		} else {
			fmt.Printf("BOUNDED-FAIL id=txn-content/canary/slot2-refused-add-then-split props=%s :: %s\n", props, detail)
		}
		fmt.Printf("BOUNDED-SUMMARY harness=txn-content part=canary evaluated=1 distinct=1 exhaustive=false bound=\"named canary history\"\n")
	}
	// growth: one key per committed transaction until the tree is three levels deep (inner nodes split too)
	nGrow := 70
	if thorough {
		nGrow = 100
	}
	for _, c := range []zzTxCfg{cfgs[0], cfgs[1]} {
		props, detail := zzTxGrowth(c, nGrow)
		if props != "" {
			fmt.Printf("BOUNDED-FAIL id=txn-content/growth/%s props=%s :: %s\n", c.name, props, detail)
		}
		fmt.Printf("BOUNDED-SUMMARY harness=txn-content part=growth/%s evaluated=%d distinct=%d exhaustive=false bound=\"one history of %d single-insert transactions in scattered key order (every 7th also removes a key), slot length 4, whole store scanned by a fresh reader after every commit\"\n", c.name, nGrow, nGrow, nGrow)
	}
}
