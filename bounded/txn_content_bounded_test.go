package infs

// BOUNDED STAND-IN (not a proof): what a store holds after a sequence of committed and rolled-back transactions, through
// the real commit pipeline (common) over the real file-system backends (fs), against a map model.
// Injected into /repo/infs with `go test -overlay` by /verif/bin/govc (see /verif/bounded/bounded.json).
// The steps of the pipeline are under contract (C01/C03/C06/C07/C10/C11/C19); that the steps compose to "the store holds
// exactly the committed writes" is not something a per-function contract states. This harness samples that composition:
// a FIXED set of pseudo-random histories (fixed seeds: every run explores the same cases; NOT exhaustive) per value-placement
// configuration; after every transaction a fresh reading transaction scans the whole store.

import (
	"context"
	"fmt"
	"math/rand"
	"os"
	"sort"
	"strings"
	"testing"

	"github.com/sharedcode/sop"
	"github.com/sharedcode/sop/btree"
	"github.com/sharedcode/sop/cache"
	"github.com/sharedcode/sop/common"
	"github.com/sharedcode/sop/fs"
)

type zzTxCfg struct {
	name string
	so   sop.StoreOptions
}

func zzTxBegin(ctx context.Context, folder string, l2 sop.L2Cache, mode sop.TransactionMode) (sop.Transaction, error) {
	rt, err := fs.NewReplicationTracker(ctx, []string{folder}, false, l2)
	if err != nil {
		return nil, err
	}
	sr, err := fs.NewStoreRepository(ctx, rt, fs.NewManageStoreFolder(fs.NewFileIO()), l2, 0)
	if err != nil {
		return nil, err
	}
	hashMod := 0
	if i, err := sr.GetRegistryHashModValue(ctx); err == nil && i > 0 {
		hashMod = i
	}
	tl := fs.NewTransactionLog(l2, rt)
	twoPT, err := common.NewTwoPhaseCommitTransaction(mode, -1, fs.NewBlobStore(folder, nil, nil), sr, fs.NewRegistry(mode == sop.ForWriting, hashMod, rt, l2), l2, tl)
	if err != nil {
		return nil, err
	}
	rt.SetTransactionID(twoPT.GetID())
	trans, err := sop.NewTransaction(mode, twoPT)
	if err != nil {
		return nil, err
	}
	if err := trans.Begin(ctx); err != nil {
		return nil, err
	}
	return trans, nil
}

// zzTxHistory runs one history; returns "" or (props, detail) of the first disagreement with the model.
func zzTxHistory(cfg zzTxCfg, seed int64, nTx, maxOps, keys int) (props, detail, trace string) {
	defer func() {
		if r := recover(); r != nil {
			props, detail = "C01,C06,C19", fmt.Sprintf("panic: %v", r)
		}
	}()
	ctx := context.Background()
	folder, err := os.MkdirTemp("", "zzbounded")
	if err != nil {
		return "C01", "tmp dir: " + err.Error(), ""
	}
	defer os.RemoveAll(folder)
	l2 := cache.NewL2InMemoryCache()
	r := rand.New(rand.NewSource(seed))
	committed := map[int]string{}
	var tr []string
	so := cfg.so
	so.Name = "zzb"
	created := false
	for txi := 0; txi < nTx; txi++ {
		t, err := zzTxBegin(ctx, folder, l2, sop.ForWriting)
		if err != nil {
			return "C01", "begin: " + err.Error(), strings.Join(tr, " ")
		}
		var b3 btree.BtreeInterface[int, string]
		if !created {
			b3, err = NewBtree[int, string](ctx, so, t, nil)
		} else {
			b3, err = OpenBtree[int, string](ctx, "zzb", t, nil)
		}
		if err != nil {
			return "C01,C12", fmt.Sprintf("tx %d: opening the store: %v", txi, err), strings.Join(tr, " ")
		}
		local := map[int]string{}
		for k, v := range committed {
			local[k] = v
		}
		nOps := 1 + r.Intn(maxOps)
		tr = append(tr, "[")
		for oi := 0; oi < nOps; oi++ {
			k := r.Intn(keys)
			v := fmt.Sprintf("v%d.%d.%d", txi, oi, k)
			_, exists := local[k]
			switch r.Intn(4) {
			case 0, 1:
				tr = append(tr, fmt.Sprintf("A%d", k))
				ok, err := b3.Add(ctx, k, v)
				if err != nil || ok != !exists {
					return "C05,C19", fmt.Sprintf("tx %d: Add(%d) = %v, %v; the key exists: %v", txi, k, ok, err, exists), strings.Join(tr, " ")
				}
				if ok {
					local[k] = v
				}
			case 2:
				tr = append(tr, fmt.Sprintf("U%d", k))
				ok, err := b3.Update(ctx, k, v)
				if err != nil || ok != exists {
					return "C19", fmt.Sprintf("tx %d: Update(%d) = %v, %v; the key exists: %v", txi, k, ok, err, exists), strings.Join(tr, " ")
				}
				if ok {
					local[k] = v
				}
			case 3:
				tr = append(tr, fmt.Sprintf("R%d", k))
				ok, err := b3.Remove(ctx, k)
				if err != nil || ok != exists {
					return "C19", fmt.Sprintf("tx %d: Remove(%d) = %v, %v; the key exists: %v", txi, k, ok, err, exists), strings.Join(tr, " ")
				}
				delete(local, k)
			}
		}
		if r.Intn(5) == 0 {
			tr = append(tr, "rollback]")
			if err := t.Rollback(ctx); err != nil {
				return "C01,C07", fmt.Sprintf("tx %d: Rollback: %v", txi, err), strings.Join(tr, " ")
			}
			// (a rolled-back creation leaves no store: it is created again by the next transaction)
		} else {
			tr = append(tr, "commit]")
			if err := t.Commit(ctx); err != nil {
				return "C01,C07", fmt.Sprintf("tx %d: Commit: %v", txi, err), strings.Join(tr, " ")
			}
			committed = local
			created = true
		}
		if !created {
			continue
		}
		// a fresh reader sees exactly the committed content
		rt, err := zzTxBegin(ctx, folder, l2, sop.ForReading)
		if err != nil {
			return "C01", "reader begin: " + err.Error(), strings.Join(tr, " ")
		}
		rb, err := OpenBtree[int, string](ctx, "zzb", rt, nil)
		if err != nil {
			return "C01,C12", fmt.Sprintf("after tx %d: reader cannot open the store: %v", txi, err), strings.Join(tr, " ")
		}
		got := map[int]string{}
		var order []int
		if ok, err := rb.First(ctx); err != nil {
			return "C17,C01", fmt.Sprintf("after tx %d: First: %v", txi, err), strings.Join(tr, " ")
		} else if ok {
			for {
				k := rb.GetCurrentKey().Key
				v, err := rb.GetCurrentValue(ctx)
				if err != nil {
					return "C10,C19", fmt.Sprintf("after tx %d: value of key %d cannot be read: %v", txi, k, err), strings.Join(tr, " ")
				}
				if _, dup := got[k]; dup {
					return "C05,C17", fmt.Sprintf("after tx %d: key %d scanned twice", txi, k), strings.Join(tr, " ")
				}
				got[k] = v
				order = append(order, k)
				if len(order) > keys+2 {
					return "C17", fmt.Sprintf("after tx %d: scan does not end", txi), strings.Join(tr, " ")
				}
				ok, err := rb.Next(ctx)
				if err != nil {
					return "C17,C01", fmt.Sprintf("after tx %d: Next: %v", txi, err), strings.Join(tr, " ")
				}
				if !ok {
					break
				}
			}
		}
		if !sort.IntsAreSorted(order) {
			return "C17", fmt.Sprintf("after tx %d: scan out of order %v", txi, order), strings.Join(tr, " ")
		}
		if len(got) != len(committed) {
			return "C01,C19,C03", fmt.Sprintf("after tx %d: the store holds %v, the committed writes are %v", txi, got, committed), strings.Join(tr, " ")
		}
		for k, v := range committed {
			if got[k] != v {
				return "C01,C19,C03", fmt.Sprintf("after tx %d: key %d holds %q, committed %q (store %v)", txi, k, got[k], v, got), strings.Join(tr, " ")
			}
		}
		if int(rb.Count()) != len(committed) {
			return "C06", fmt.Sprintf("after tx %d: Count() = %d, the store holds %d items", txi, rb.Count(), len(committed)), strings.Join(tr, " ")
		}
		rt.Commit(ctx)
	}
	return "", "", strings.Join(tr, " ")
}

func TestZZBoundedTxnContent(t *testing.T) {
	thorough := os.Getenv("GOVC_TIER") == "thorough"
	nHist, nTx, maxOps, keys := 40, 5, 4, 6
	if thorough {
		nHist, nTx, maxOps, keys = 400, 6, 5, 8
	}
	cfgs := []zzTxCfg{
		{"value-in-node", sop.StoreOptions{SlotLength: 4, IsUnique: true, IsValueDataInNodeSegment: true}},
		{"value-in-own-segment", sop.StoreOptions{SlotLength: 4, IsUnique: true, IsValueDataInNodeSegment: false}},
		{"value-in-own-segment-cached", sop.StoreOptions{SlotLength: 4, IsUnique: true, IsValueDataInNodeSegment: false, IsValueDataGloballyCached: true}},
		{"value-actively-persisted", sop.StoreOptions{SlotLength: 4, IsUnique: true, IsValueDataActivelyPersisted: true}},
		{"value-actively-persisted-cached", sop.StoreOptions{SlotLength: 4, IsUnique: true, IsValueDataActivelyPersisted: true, IsValueDataGloballyCached: true}},
	}
	for _, c := range cfgs {
		evaluated, failures := 0, 0
		distinct := map[string]bool{}
		for h := 0; h < nHist && failures < 3; h++ {
			props, detail, trace := zzTxHistory(c, int64(h)*104729+17, nTx, maxOps, keys)
			evaluated++
			distinct[trace] = true
			if props != "" {
				failures++
				fmt.Printf("BOUNDED-FAIL id=txn-content/%s/seed%d props=%s :: %s [history: %s]\n", c.name, h, props, detail, trace)
			}
		}
		fmt.Printf("BOUNDED-SUMMARY harness=txn-content part=%s evaluated=%d distinct=%d exhaustive=false bound=\"%d fixed pseudo-random histories of %d transactions with 1..%d operations (Add/Update/Remove) over %d keys, each committed (4 in 5) or rolled back; slot length 4\"\n", c.name, evaluated, len(distinct), nHist, nTx, maxOps, keys)
	}
}
