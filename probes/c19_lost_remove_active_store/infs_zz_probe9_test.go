package infs

import (
	"context"
	"testing"

	"github.com/sharedcode/sop"
	"github.com/sharedcode/sop/cache"
	"github.com/sharedcode/sop/common"
	"github.com/sharedcode/sop/fs"
)

// C19/C01 probe: in a store whose values are actively persisted (IsValueDataActivelyPersisted), a transaction that only
// REMOVES an item commits successfully but the removal is not persisted: the item tracker does not record the removal, the
// commit sees "nothing tracked" and returns early.
func zzProbe9Tx(t *testing.T, ctx context.Context, folder string, l2 sop.L2Cache, mode sop.TransactionMode) sop.Transaction {
	t.Helper()
	rt, err := fs.NewReplicationTracker(ctx, []string{folder}, false, l2)
	if err != nil {
		t.Fatal(err)
	}
	sr, err := fs.NewStoreRepository(ctx, rt, fs.NewManageStoreFolder(fs.NewFileIO()), l2, 0)
	if err != nil {
		t.Fatal(err)
	}
	hashMod := 0
	if i, err := sr.GetRegistryHashModValue(ctx); err == nil && i > 0 {
		hashMod = i
	}
	tl := fs.NewTransactionLog(l2, rt)
	twoPT, err := common.NewTwoPhaseCommitTransaction(mode, -1, fs.NewBlobStore(folder, nil, nil), sr, fs.NewRegistry(mode == sop.ForWriting, hashMod, rt, l2), l2, tl)
	if err != nil {
		t.Fatal(err)
	}
	rt.SetTransactionID(twoPT.GetID())
	trans, err := sop.NewTransaction(mode, twoPT)
	if err != nil {
		t.Fatal(err)
	}
	if err := trans.Begin(ctx); err != nil {
		t.Fatal(err)
	}
	return trans
}

func TestProbe_C19_RemoveInActivelyPersistedStoreIsPersisted(t *testing.T) {
	ctx := context.Background()
	folder := t.TempDir()
	l2 := cache.NewL2InMemoryCache()
	t1 := zzProbe9Tx(t, ctx, folder, l2, sop.ForWriting)
	b3, err := NewBtree[int, string](ctx, sop.StoreOptions{Name: "zz_probe9", SlotLength: 8, IsUnique: true, IsValueDataActivelyPersisted: true}, t1, nil)
	if err != nil {
		t.Fatal(err)
	}
	b3.Add(ctx, 9, "nine")
	b3.Add(ctx, 8, "eight")
	if err := t1.Commit(ctx); err != nil {
		t.Fatal(err)
	}
	t2 := zzProbe9Tx(t, ctx, folder, l2, sop.ForWriting)
	b3, err = OpenBtree[int, string](ctx, "zz_probe9", t2, nil)
	if err != nil {
		t.Fatal(err)
	}
	ok, err := b3.Remove(ctx, 9)
	t.Logf("Remove(9) = %v, %v", ok, err)
	if err := t2.Commit(ctx); err != nil {
		t.Fatalf("Commit of the removing transaction: %v", err)
	}
	t3 := zzProbe9Tx(t, ctx, folder, l2, sop.ForReading)
	b3, err = OpenBtree[int, string](ctx, "zz_probe9", t3, nil)
	if err != nil {
		t.Fatal(err)
	}
	found, _ := b3.Find(ctx, 9, false)
	t.Logf("after the committed removal: Find(9) = %v, Count = %d", found, b3.Count())
	if found || b3.Count() != 1 {
		t.Errorf("LOST REMOVE: the committed removal of key 9 is not in the store (Find(9)=%v, Count=%d)", found, b3.Count())
	}
}
