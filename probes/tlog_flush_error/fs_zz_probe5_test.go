package fs

import (
	"context"
	"testing"

	"github.com/sharedcode/sop"
	"github.com/sharedcode/sop/common/mocks"
)

// The log file becomes unwritable (here: its descriptor is closed under the logger, like a vanished mount or EBADF/EIO/ENOSPC
// on flush). Add must report the failure: recovery relies on every record Add acknowledged being on disk.
func TestProbe_TransactionLogAddReportsFlushFailure(t *testing.T) {
	ctx := context.Background()
	base := t.TempDir()
	c := mocks.NewMockClient()
	rt, _ := NewReplicationTracker(ctx, []string{base}, false, c)
	tl := NewTransactionLog(c, rt)
	tid := sop.NewUUID()
	if err := tl.Add(ctx, tid, 1, []byte("first")); err != nil {
		t.Fatal(err)
	}
	tl.file.Close() // the OS file is gone; the buffered writer still accepts bytes
	if err := tl.Add(ctx, tid, 2, []byte("second")); err == nil {
		t.Fatalf("Add returned nil although the record could not be flushed to the log file")
	}
}
