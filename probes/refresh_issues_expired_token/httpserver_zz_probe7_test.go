package main

import (
	"context"
	"testing"
	"time"
)

// Refresh after the access TTL elapsed (but within the refresh TTL): the access token handed back must be valid when issued.
func TestProbe_RefreshAfterAccessExpiryIssuesValidToken(t *testing.T) {
	withIsolatedSessionStore(t)
	ctx := context.Background()
	s := NewSessionStore(1 * time.Second)
	_, refresh, err := s.CreateSession(ctx, "alice", "admin")
	if err != nil {
		t.Fatal(err)
	}
	time.Sleep(2100 * time.Millisecond)
	access2, _, err := s.Refresh(ctx, refresh)
	if err != nil {
		t.Fatalf("Refresh: %v", err)
	}
	if _, err := s.ValidateToken(ctx, access2); err != nil {
		t.Fatalf("the access token returned by a successful Refresh is rejected right away: %v", err)
	}
}
