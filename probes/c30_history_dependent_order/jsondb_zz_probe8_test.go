package jsondb

import "testing"

// C30 known finding, replayed on the real code: the comparer for a field is chosen from the first value ever compared and
// kept, so two instances (two processes opening the same store) that saw different first keys order the SAME two keys
// differently. Run with:
//   cd /repo/jsondb && go test -overlay <overlay.json mapping zz_probe8_test.go to this file> -vet=off -run TestProbe_C30 -v .
func TestProbe_C30_IndexSpecificationOrderDependsOnHistory(t *testing.T) {
	mk := func() *IndexSpecification {
		return NewIndexSpecification([]IndexFieldSpecification{{FieldName: "a", AscendingSortOrder: true}})
	}
	a, b := mk(), mk()
	a.Comparer(map[string]any{"a": 9.0}, map[string]any{"a": 1.0}) // first key seen has a number in field a
	b.Comparer(map[string]any{"b": "x"}, map[string]any{"a": 1.0}) // first key seen has no field a
	k1, k2 := map[string]any{"a": 9.0}, map[string]any{"a": 10.0}
	ra, rb := a.Comparer(k1, k2), b.Comparer(k1, k2)
	t.Logf("instance A: cmp({a:9},{a:10}) = %d; instance B: %d", ra, rb)
	if ra != rb {
		t.Errorf("HISTORY-DEPENDENT ORDER: %d vs %d for the same two keys", ra, rb)
	}
}

func TestProbe_C30_DefaultComparerOrderDependsOnHistory(t *testing.T) {
	a, b := &JsonDBMapKey{}, &JsonDBMapKey{}
	a.defaultComparer(map[string]any{"a": 9.0}, map[string]any{"a": 1.0})
	b.defaultComparer(map[string]any{"a": "x"}, map[string]any{"a": "y"}) // first key seen has a string in field a
	k1, k2 := map[string]any{"a": 9.0}, map[string]any{"a": 10.0}
	ra, rb := a.defaultComparer(k1, k2), b.defaultComparer(k1, k2)
	t.Logf("instance A: cmp({a:9},{a:10}) = %d; instance B: %d", ra, rb)
	if ra != rb {
		t.Errorf("HISTORY-DEPENDENT ORDER: %d vs %d for the same two keys", ra, rb)
	}
}
