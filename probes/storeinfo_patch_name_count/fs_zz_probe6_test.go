package fs

import (
	"testing"

	"github.com/sharedcode/sop"
	"github.com/sharedcode/sop/encoding"
)

// A store NAMED "count": the in-place patch of the item count must change the count field and nothing else.
func TestProbe_PatchCountOfStoreNamedCount(t *testing.T) {
	si := sop.NewStoreInfo(sop.StoreOptions{Name: "count", SlotLength: 100})
	si.Count = 1
	ba, err := encoding.Marshal(*si)
	if err != nil {
		t.Fatal(err)
	}
	patched, err := patchJSONNumericField(ba, fieldCount, 7)
	if err != nil {
		t.Fatal(err)
	}
	var back sop.StoreInfo
	if err := encoding.Unmarshal(patched, &back); err != nil {
		t.Fatalf("patched store info no longer decodes: %v\n%s", err, patched)
	}
	if back.Name != "count" || back.SlotLength != 100 || back.Count != 7 {
		t.Fatalf("after patching the count of store %q: name=%q slot_length=%d count=%d (want count=7, everything else unchanged)\n%s", "count", back.Name, back.SlotLength, back.Count, patched)
	}
}
