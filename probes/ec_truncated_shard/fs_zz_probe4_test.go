package fs

import (
	"context"
	"os"
	"path/filepath"
	"testing"

	"github.com/sharedcode/sop"
)

// one shard file truncated to 5 bytes (shorter than its 17-byte metadata header), d=2 p=2: the read must succeed.
// Before the fix the shard reader task sliced ba[0:17] and the whole process died with "slice bounds out of range".
func TestProbe_EC_TruncatedShardFile(t *testing.T) {
	ctx := context.Background()
	dirs := []string{t.TempDir(), t.TempDir(), t.TempDir(), t.TempDir()}
	cfg := map[string]sop.ErasureCodingConfig{"t": {DataShardsCount: 2, ParityShardsCount: 2, BaseFolderPathsAcrossDrives: dirs}}
	bsI, err := NewBlobStoreWithEC(DefaultToFilePath, NewFileIO(), cfg)
	if err != nil {
		t.Fatal(err)
	}
	bs := bsI.(*BlobStoreWithEC)
	id := sop.NewUUID()
	data := []byte("hello world, this is an odd-length blob!!")
	if err := bs.Add(ctx, []sop.BlobsPayload[sop.KeyValuePair[sop.UUID, []byte]]{{BlobTable: "t", Blobs: []sop.KeyValuePair[sop.UUID, []byte]{{Key: id, Value: data}}}}); err != nil {
		t.Fatal(err)
	}
	var p string
	filepath.Walk(dirs[1], func(path string, info os.FileInfo, err error) error {
		if err == nil && !info.IsDir() && filepath.Base(path) == id.String()+"_1" {
			p = path
		}
		return nil
	})
	if p == "" {
		t.Fatal("shard file not found")
	}
	if err := os.Truncate(p, 5); err != nil {
		t.Fatal(err)
	}
	got, err := bs.GetOne(ctx, "t", id)
	if err != nil || string(got) != string(data) {
		t.Fatalf("GetOne with one truncated shard file (p=2): err=%v got %d bytes", err, len(got))
	}
}
