package fs

import (
	"context"
	"os"
	"path/filepath"
	"testing"

	"github.com/sharedcode/sop"
)

func shardPath(t *testing.T, dir string, id sop.UUID, idx string) string {
	var p string
	filepath.Walk(dir, func(path string, info os.FileInfo, err error) error {
		if err == nil && !info.IsDir() && filepath.Base(path) == id.String()+"_"+idx {
			p = path
		}
		return nil
	})
	if p == "" {
		t.Fatalf("shard file %s not found", idx)
	}
	return p
}

// one flipped bit in the padding byte (byte 0) of the FIRST shard file: corruption of 1 <= p shard files
func TestProbe_EC_PaddingByteCorruption(t *testing.T) {
	ctx := context.Background()
	dirs := []string{t.TempDir(), t.TempDir(), t.TempDir(), t.TempDir()}
	table := "t"
	cfg := map[string]sop.ErasureCodingConfig{table: {DataShardsCount: 2, ParityShardsCount: 2, BaseFolderPathsAcrossDrives: dirs}}
	bsI, err := NewBlobStoreWithEC(DefaultToFilePath, NewFileIO(), cfg)
	if err != nil {
		t.Fatal(err)
	}
	bs := bsI.(*BlobStoreWithEC)
	id := sop.NewUUID()
	data := []byte("hello world, this is an odd-length blob!!")
	if err := bs.Add(ctx, []sop.BlobsPayload[sop.KeyValuePair[sop.UUID, []byte]]{{BlobTable: table, Blobs: []sop.KeyValuePair[sop.UUID, []byte]{{Key: id, Value: data}}}}); err != nil {
		t.Fatal(err)
	}
	p := shardPath(t, dirs[0], id, "0")
	ba, _ := os.ReadFile(p)
	t.Logf("padding byte was %d, shard file len %d", ba[0], len(ba))
	ba[0] ^= 0x04
	os.WriteFile(p, ba, 0o644)
	defer func() {
		if r := recover(); r != nil {
			t.Fatalf("GetOne panicked: %v", r)
		}
	}()
	got, err := bs.GetOne(ctx, table, id)
	if err != nil {
		t.Logf("GetOne error (acceptable only if > p shards damaged): %v", err)
		t.Fatalf("1 damaged shard file with p=2 must be tolerated")
	}
	if string(got) != string(data) {
		t.Fatalf("GetOne returned wrong bytes without error: got %d bytes %q, want %d bytes", len(got), string(got), len(data))
	}
}
