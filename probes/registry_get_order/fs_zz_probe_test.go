package fs

import (
	"context"
	"os"
	"path/filepath"
	"testing"

	"github.com/sharedcode/sop"
	"github.com/sharedcode/sop/common/mocks"
)

func TestProbe_RegistryGetOrderOnPartialL2Hit(t *testing.T) {
	ctx := context.Background()
	base := t.TempDir()
	c := mocks.NewMockClient()
	rt, _ := NewReplicationTracker(ctx, []string{base}, false, c)
	r := NewRegistry(true, MinimumModValue, rt, c)
	defer r.Close()
	os.MkdirAll(filepath.Join(rt.getActiveBaseFolder(), "rg"), 0o755)
	h1 := sop.NewHandle(sop.NewUUID())
	h2 := sop.NewHandle(sop.NewUUID())
	if err := r.Add(ctx, []sop.RegistryPayload[sop.Handle]{{RegistryTable: "rg", IDs: []sop.Handle{h1, h2}}}); err != nil {
		t.Fatal(err)
	}
	// evict h1's handle from the L2 cache only (expiry / eviction of one entry)
	if _, err := c.Delete(ctx, []string{h1.LogicalID.String()}); err != nil {
		t.Fatal(err)
	}
	got, err := r.Get(ctx, []sop.RegistryPayload[sop.UUID]{{RegistryTable: "rg", IDs: []sop.UUID{h1.LogicalID, h2.LogicalID}}})
	if err != nil {
		t.Fatal(err)
	}
	if len(got[0].IDs) != 2 {
		t.Fatalf("len %d", len(got[0].IDs))
	}
	if got[0].IDs[0].LogicalID != h1.LogicalID || got[0].IDs[1].LogicalID != h2.LogicalID {
		t.Fatalf("Get returned handles out of request order: asked [%v %v] got [%v %v]", h1.LogicalID, h2.LogicalID, got[0].IDs[0].LogicalID, got[0].IDs[1].LogicalID)
	}
}
