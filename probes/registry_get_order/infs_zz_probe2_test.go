package infs

import (
	"context"
	"fmt"
	"runtime"
	"strings"
	"testing"
	"time"

	"github.com/sharedcode/sop"
	"github.com/sharedcode/sop/cache"
)

type evictingCache struct {
	sop.L2Cache
	armed bool
	hits  int
}

func (c *evictingCache) GetStructs(ctx context.Context, keys []string, targets []interface{}, exp time.Duration) ([]bool, error) {
	if c.armed && len(keys) >= 2 && len(keys[0]) == 36 && c.hits < 1 && inCommitUpdatedNodes() {
		// one entry of the batch was evicted / expired just before this lookup
		c.L2Cache.Delete(ctx, []string{keys[0]})
		c.hits++
	}
	return c.L2Cache.GetStructs(ctx, keys, targets, exp)
}

func inCommitUpdatedNodes() bool {
	pc := make([]uintptr, 40)
	n := runtime.Callers(2, pc)
	fr := runtime.CallersFrames(pc[:n])
	for {
		f, more := fr.Next()
		if strings.Contains(f.Function, "commitUpdatedNodes") {
			return true
		}
		if !more {
			return false
		}
	}
}

func TestProbe_PartialL2HitDuringCommit(t *testing.T) {
	ctx := context.Background()
	dir := t.TempDir()
	ec := &evictingCache{L2Cache: cache.NewL2InMemoryCache()}
	sop.RegisterL2CacheFactory(sop.InMemory, func(sop.TransactionOptions) sop.L2Cache { return ec })
	opts := sop.TransactionOptions{StoresFolders: []string{dir}, Mode: sop.ForWriting, MaxTime: -1, CacheType: sop.InMemory}
	begin := func() sop.Transaction {
		tr, err := NewTransaction(ctx, opts)
		if err != nil {
			t.Fatal(err)
		}
		if err := tr.Begin(ctx); err != nil {
			t.Fatal(err)
		}
		return tr
	}
	tr := begin()
	b3, err := NewBtree[int, string](ctx, sop.StoreOptions{Name: "probe", SlotLength: 4, IsUnique: true, IsValueDataInNodeSegment: true}, tr, nil)
	if err != nil {
		t.Fatal(err)
	}
	const n = 40
	for i := 0; i < n; i++ {
		if ok, err := b3.Add(ctx, i, fmt.Sprintf("v%d", i)); !ok || err != nil {
			t.Fatal(ok, err)
		}
	}
	if err := tr.Commit(ctx); err != nil {
		t.Fatal(err)
	}
	// second transaction: update items living in different leaves
	tr = begin()
	b3, err = OpenBtree[int, string](ctx, "probe", tr, nil)
	if err != nil {
		t.Fatal(err)
	}
	for _, k := range []int{0, 39} {
		if ok, err := b3.Update(ctx, k, fmt.Sprintf("new%d", k)); !ok || err != nil {
			t.Fatal(k, ok, err)
		}
	}
	ec.armed = true
	err = tr.Commit(ctx)
	ec.armed = false
	t.Logf("commit err=%v, partial-hit lookups=%d", err, ec.hits)
	if err != nil {
		t.Skipf("commit failed (no corruption possible): %v", err)
	}
	cache.GetGlobalL1Cache(ec).Handles.Clear()
	// read back in a fresh transaction
	tr = begin()
	b3, err = OpenBtree[int, string](ctx, "probe", tr, nil)
	if err != nil {
		t.Fatal(err)
	}
	want := map[int]string{}
	for i := 0; i < n; i++ {
		want[i] = fmt.Sprintf("v%d", i)
	}
	for _, k := range []int{0, 39} {
		want[k] = fmt.Sprintf("new%d", k)
	}
	got := map[int]string{}
	cnt := 0
	if ok, err := b3.First(ctx); ok && err == nil {
		for {
			k := b3.GetCurrentKey().Key
			v, err := b3.GetCurrentValue(ctx)
			if err != nil {
				t.Fatalf("read error at key %d: %v", k, err)
			}
			got[k] = v
			cnt++
			if ok, err := b3.Next(ctx); !ok || err != nil {
				if err != nil {
					t.Fatalf("next error: %v", err)
				}
				break
			}
		}
	}
	if cnt != n || b3.Count() != int64(n) {
		t.Errorf("scan returned %d items, Count()=%d, want %d", cnt, b3.Count(), n)
	}
	for k, v := range want {
		if got[k] != v {
			t.Errorf("key %d: got %q want %q", k, got[k], v)
		}
	}
	tr.Rollback(ctx)
}
