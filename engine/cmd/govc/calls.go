package main

import (
	"fmt"
	"go/token"
	"go/types"
	"os"
	"sort"
	"strings"

	"golang.org/x/tools/go/ssa"
)

// ---------------------------------------------------------------- naming

// displayName: the name used for call sites / events: (*T).m, T.m (iface), pkg.F or F.
func (eng *Engine) displayName(fn *ssa.Function, from *types.Package) string {
	if fn.Origin() != nil {
		fn = fn.Origin()
	}
	if recv := fn.Signature.Recv(); recv != nil {
		return recvString(recv.Type()) + "." + fn.Name()
	}
	if fn.Parent() != nil {
		return eng.displayName(fn.Parent(), from) + "$" + strings.TrimPrefix(fn.Name(), fn.Parent().Name()+"$")
	}
	if fn.Pkg != nil && from != nil && fn.Pkg.Pkg != from {
		return fn.Pkg.Pkg.Name() + "." + fn.Name()
	}
	return fn.Name()
}

func recvString(t types.Type) string {
	ptr := false
	if p, ok := t.(*types.Pointer); ok {
		ptr = true
		t = p.Elem()
	}
	name := t.String()
	switch n := t.(type) {
	case *types.Named:
		name = n.Obj().Name()
	case *types.Alias:
		name = n.Obj().Name()
	}
	if ptr {
		return "(*" + name + ")"
	}
	return "(" + name + ")"
}

// specName: key of a function inside its package: (*T).m or F or outer$1
func (eng *Engine) specName(fn *ssa.Function) string {
	if fn.Origin() != nil {
		fn = fn.Origin()
	}
	return eng.displayName(fn, fnPkg(fn))
}

func fnPkg(fn *ssa.Function) *types.Package {
	if fn.Origin() != nil {
		fn = fn.Origin()
	}
	for fn.Parent() != nil {
		fn = fn.Parent()
	}
	if fn.Pkg != nil {
		return fn.Pkg.Pkg
	}
	if recv := fn.Signature.Recv(); recv != nil {
		t := recv.Type()
		if p, ok := t.(*types.Pointer); ok {
			t = p.Elem()
		}
		if n, ok := t.(*types.Named); ok && n.Obj().Pkg() != nil {
			return n.Obj().Pkg()
		}
	}
	return nil
}

func (eng *Engine) qualName(fn *ssa.Function) string {
	p := fnPkg(fn)
	if p == nil {
		return eng.specName(fn)
	}
	return p.Name() + "." + eng.specName(fn)
}

func (eng *Engine) lookupSpec(fn *ssa.Function) *FuncSpec {
	p := fnPkg(fn)
	if p == nil {
		return nil
	}
	return eng.specs.Funcs[specKey(p.Path(), eng.specName(fn))]
}

// ---------------------------------------------------------------- calls

// call executes a call instruction; the caller's `at call` clauses (ghost updates / assertions before and
// after the call) apply whatever way the callee is modelled (contract, inlined body, opaque).
func (vc *VC) call(fr *Frame, instr ssa.Instruction, c *ssa.CallCommon, st *State) Val {
	var sites []*CallSiteSpec
	name := ""
	ord := 0
	if fr.spec != nil && len(fr.spec.Calls) > 0 {
		name = vc.calleeName(fr, c)
		if name != "" {
			ord = vc.callOrdinal(fr, instr, name)
			for _, cs := range fr.spec.Calls {
				if cs.Callee == name && (cs.Ordinal == -1 || cs.Ordinal == ord) {
					sites = append(sites, cs)
					if vc.matchedSites == nil {
						vc.matchedSites = map[*CallSiteSpec]bool{}
					}
					vc.matchedSites[cs] = true
				}
			}
		}
	}
	if len(sites) == 0 {
		return vc.callInner(fr, instr, c, st)
	}
	var args []Val
	if c.IsInvoke() {
		args = append(args, vc.operand(fr, c.Value))
	}
	for _, a := range c.Args {
		args = append(args, vc.operand(fr, a))
	}
	callerEnv := func(cur *State, extra map[string]Val) *SpecEnv {
		env := vc.specEnvCur(fr, cur, fr.oldStOrSelf(cur), extra)
		for i := range args {
			env.vars[fmt.Sprintf("arg%d", i)] = args[i]
		}
		if len(args) > 0 {
			env.vars["recv"] = args[0]
		}
		if !c.IsInvoke() && c.StaticCallee() == nil {
			if _, isB := c.Value.(*ssa.Builtin); !isB {
				// call through a function value: the value itself
				fv := vc.operand(fr, c.Value)
				if fv.T != "" {
					env.vars["callee"] = Val{T: fv.T, Typ: types.Typ[types.Int]}
				}
			}
		}
		return env
	}
	for _, cs := range sites {
		for _, g := range cs.GhostB {
			vc.ghostAssign(callerEnv(st, nil), st, g)
		}
		for _, a := range cs.AssertsB {
			f := vc.trBool(callerEnv(st, nil), a.E)
			o := vc.oblige(st, fmt.Sprintf("%s#at.%s#%d.before.%d", vc.fnNameOf(fr), name, ord, a.Idx), "assert", f, a.Src, instr.Pos())
			o.Tag = a.Tag
		}
	}
	res := vc.callInner(fr, instr, c, st)
	results := map[string]Val{}
	if len(res.Tuple) > 0 {
		for i, r := range res.Tuple {
			results[fmt.Sprintf("res%d", i)] = r
		}
	} else if res.T != "" || res.Sl != nil {
		results["res0"] = res
	}
	for _, cs := range sites {
		for _, h := range cs.Havoc {
			vc.havocLoc(callerEnv(st, results), st, h)
			vc.note("call-site frame (assumed): the call to " + name + " may additionally write " + h.String())
		}
	}
	for _, cs := range sites {
		for _, g := range cs.Ghost {
			vc.ghostAssign(callerEnv(st, results), st, g)
		}
		for _, a := range cs.Asserts {
			f := vc.trBool(callerEnv(st, results), a.E)
			o := vc.oblige(st, fmt.Sprintf("%s#at.%s#%d.assert.%d", vc.fnNameOf(fr), name, ord, a.Idx), "assert", f, a.Src, instr.Pos())
			o.Tag = a.Tag
		}
	}
	return res
}

func (vc *VC) callInner(fr *Frame, instr ssa.Instruction, c *ssa.CallCommon, st *State) Val {
	resT := c.Signature().Results()
	var resType types.Type = resT
	if resT.Len() == 1 {
		resType = resT.At(0).Type()
	}
	// the call instruction's own type is the instantiated one (an uninstantiated
	// generic callee's signature still mentions its type parameters)
	if cv, ok := instr.(*ssa.Call); ok {
		if os.Getenv("GOVC_DBG") != "" {
			fmt.Fprintf(os.Stderr, "DBG call %s : %s | sig %s\n", cv, cv.Type(), c.Signature())
		}
		if tt, isT := cv.Type().(*types.Tuple); isT {
			if tt.Len() == resT.Len() && tt.Len() > 1 {
				resType = tt
			}
		} else if resT.Len() == 1 {
			resType = cv.Type()
		}
	}
	// builtins
	if b, ok := c.Value.(*ssa.Builtin); ok {
		return vc.builtin(fr, instr, b, c, st)
	}
	var args []Val
	for _, a := range c.Args {
		args = append(args, vc.operand(fr, a))
	}
	if c.IsInvoke() {
		recv := vc.operand(fr, c.Value)
		name := ifaceMethodName(c.Value.Type(), c.Method.Name())
		pkgPath := ""
		if n, ok := types.Unalias(c.Value.Type()).(*types.Named); ok && n.Obj().Pkg() != nil {
			pkgPath = n.Obj().Pkg().Path()
		}
		spec := vc.eng.specs.Funcs[specKey(pkgPath, name)]
		all := append([]Val{recv}, args...)
		if vc.safe(fr) {
			vc.oblige(st, fmt.Sprintf("%s#safe.nil.%d", vc.fnName(), vc.ord(fr, "nil")), "safe", fmt.Sprintf("(not (= %s 0))", recv.T), "method call on nil interface "+name, instr.Pos())
		}
		if spec == nil {
			vc.opaque[name+" (interface method without contract: results arbitrary, no caller-visible state modified)"] = true
			vc.bumpEvent(st, name)
			return zeroOffsets(vc.freshResult(st, resType, name))
		}
		sig := c.Method.Type().(*types.Signature)
		names := []string{"self"}
		for i := 0; i < sig.Params().Len(); i++ {
			n := sig.Params().At(i).Name()
			if len(spec.Params) > i+1 {
				n = spec.Params[i+1]
			} else if n == "" || n == "_" {
				n = fmt.Sprintf("p%d", i)
			}
			names = append(names, n)
		}
		return vc.applyContract(fr, instr, spec, name, names, all, resType, sig, st, nil)
	}
	fnVal := vc.operand(fr, c.Value)
	var callee *ssa.Function
	var bindings []Val
	if fnVal.Clo != nil {
		callee = fnVal.Clo.Fn
		bindings = fnVal.Clo.Bindings
	}
	if callee == nil {
		// call through a function value: global func var with a lib contract?
		if fnVal.Global != "" {
			k := strings.LastIndex(fnVal.Global, ".")
			spec := vc.eng.specs.Funcs[specKey(fnVal.Global[:k], fnVal.Global[k+1:])]
			name := fnVal.Global[strings.LastIndex(fnVal.Global[:k], "/")+1:]
			if spec != nil {
				sig := c.Signature()
				var names []string
				for i := 0; i < sig.Params().Len(); i++ {
					n := sig.Params().At(i).Name()
					if len(spec.Params) > i {
						n = spec.Params[i]
					} else if n == "" {
						n = fmt.Sprintf("p%d", i)
					}
					names = append(names, n)
				}
				return vc.applyContract(fr, instr, spec, name, names, args, resType, sig, st, nil)
			}
		}
		if fnVal.FnField != "" {
			if spec := vc.eng.specs.Funcs[fnVal.FnField]; spec != nil {
				sig := c.Signature()
				var names []string
				for i := 0; i < sig.Params().Len(); i++ {
					n := sig.Params().At(i).Name()
					if len(spec.Params) > i {
						n = spec.Params[i]
					} else if n == "" || n == "_" {
						n = fmt.Sprintf("p%d", i)
					}
					names = append(names, n)
				}
				name := fnVal.FnField[strings.Index(fnVal.FnField, "::")+2:]
				fv := fnVal
				fv.Typ = types.Typ[types.Int]
				vc.dynCallee = &fv
				return vc.applyContract(fr, instr, spec, name, names, args, resType, sig, st, nil)
			}
		}
		vc.opaque["call through function value "+c.Value.Name()+" in "+fr.fn.Name()+" (results arbitrary; heap havoc)"] = true
		vc.havocAll(st)
		return zeroOffsets(vc.freshResult(st, resType, "dyncall"))
	}
	if r, ok := vc.intrinsic(fr, instr, callee, args, st); ok {
		return r
	}
	name := vc.eng.displayName(callee, fnPkg(fr.fn))
	spec := vc.eng.lookupSpec(callee)
	forceOpaque := false
	if fr.spec != nil {
		for _, o := range fr.spec.Opaque {
			if o == name {
				forceOpaque = true
			}
		}
	}
	if spec != nil && !spec.Inline && !forceOpaque {
		var names []string
		origin := callee
		if callee.Origin() != nil {
			origin = callee.Origin()
		}
		for _, p := range origin.Params {
			names = append(names, p.Name())
		}
		if len(names) != len(args) {
			names = nil
			sig := callee.Signature
			if sig.Recv() != nil {
				names = append(names, sig.Recv().Name())
			}
			for i := 0; i < sig.Params().Len(); i++ {
				names = append(names, sig.Params().At(i).Name())
			}
		}
		return vc.applyContract(fr, instr, spec, name, names, args, resType, callee.Signature, st, callee)
	}
	// inline?
	target := callee
	if callee.Origin() != nil {
		target = callee.Origin()
		// the origin's body is typed over its own type parameters: inlining it is
		// only sort-correct when the instantiation passes the same-named parameters
		// through (generic caller of the same generic type); otherwise stay opaque.
		if !sameTypeParams(callee) {
			forceOpaque = true
		}
	}
	if !forceOpaque && len(target.Blocks) > 0 && vc.shouldInline(fr, target, spec) {
		return vc.inline(fr, instr, target, spec, name, args, bindings, resType, st)
	}
	// opaque
	vc.bumpEvent(st, name)
	vc.opaque[vc.eng.qualName(callee)] = true
	ms := vc.eng.modsetOf(target)
	vc.havocModset(st, ms)
	return zeroOffsets(vc.freshResult(st, resType, name))
}

func ifaceMethodName(t types.Type, m string) string {
	t = types.Unalias(t)
	if n, ok := t.(*types.Named); ok {
		return n.Obj().Name() + "." + m
	}
	return "interface." + m
}

func (vc *VC) freshResult(st *State, t types.Type, label string) Val {
	if tup, ok := t.(*types.Tuple); ok && tup.Len() == 0 {
		return Val{Typ: t}
	}
	return vc.freshVal(st, t, "res."+label)
}

// zeroOffsets normalises slice results of library / interface / opaque calls to offset 0
// (their position inside a backing array nobody else refers to is unobservable).
func zeroOffsets(v Val) Val {
	if v.Sl != nil {
		v.Sl = &SliceVal{v.Sl.Arr, "0", v.Sl.Len, v.Sl.Cap}
	}
	for i := range v.Tuple {
		v.Tuple[i] = zeroOffsets(v.Tuple[i])
	}
	return v
}

func (vc *VC) bumpEvent(st *State, name string) {
	if vc.eng.trackedEvents[name] {
		c := vc.eventComp(name)
		vc.set(st, c, fmt.Sprintf("(+ %s 1)", vc.get(st, c)))
	}
}

func (vc *VC) shouldInline(fr *Frame, fn *ssa.Function, spec *FuncSpec) bool {
	if spec != nil && spec.Inline {
		return true
	}
	if vc.depth >= 4 {
		return false
	}
	if !inSubset(fn) {
		return false // e.g. channel operations: treated as an opaque call instead
	}
	if fn.Parent() != nil { // anonymous function literal: inline
		return countInstrs(fn) <= 400
	}
	if fnPkg(fn) == nil || !vc.eng.inRepo(fnPkg(fn).Path()) {
		return false
	}
	// small loop-free helpers in the repository
	loops, _ := findLoops(fn)
	if len(loops) > 0 {
		return false
	}
	return countInstrs(fn) <= 60 && !vc.eng.isRecursive(fn)
}

func countInstrs(fn *ssa.Function) int {
	n := 0
	for _, b := range fn.Blocks {
		n += len(b.Instrs)
	}
	return n
}

func (vc *VC) inline(fr *Frame, instr ssa.Instruction, fn *ssa.Function, spec *FuncSpec, name string, args, bindings []Val, resType types.Type, st *State) Val {
	vc.bumpEvent(st, name)
	vc.inlined[vc.eng.qualName(fn)] = true
	nf := &Frame{fn: fn, spec: spec, env: map[ssa.Value]Val{}, params: map[string]Val{}, callOrd: map[string]int{}, oldSt: st.clone()}
	nf.safeOn = (fr.top || fr.safeOn) && fn.Parent() != nil && (fn.Parent() == fr.fn || fn.Parent() == vc.fn)
	if len(fn.Params) != len(args) {
		vc.fatalf("inline %s: arity mismatch", fn)
		return vc.freshResult(st, resType, name)
	}
	for i, p := range fn.Params {
		nf.env[p] = args[i]
		nf.params[p.Name()] = args[i]
	}
	for i, fv := range fn.FreeVars {
		if i < len(bindings) {
			nf.env[fv] = bindings[i]
			nf.params[fv.Name()] = bindings[i]
		}
	}
	vc.depth++
	savedLocals := st.locals
	st.locals = nil
	rets := vc.execBody(nf, st)
	vc.depth--
	st.locals = savedLocals
	if len(rets) == 0 {
		st.pc = "false"
		st.dead = true
		return vc.freshResult(st, resType, name)
	}
	var edges []edgeIn
	var conds []string
	for _, r := range rets {
		edges = append(edges, edgeIn{r.cond, r.st})
		conds = append(conds, r.cond)
	}
	m := vc.merge(edges, "ret."+fn.Name())
	st.pc = m.pc
	st.heap = m.heap
	st.locals = savedLocals
	sig := fn.Signature
	switch sig.Results().Len() {
	case 0:
		return Val{Typ: resType}
	case 1:
		var vs []Val
		for _, r := range rets {
			vs = append(vs, r.vals[0])
		}
		return vc.mergeVals(conds, vs, sig.Results().At(0).Type(), "ret."+fn.Name())
	}
	out := Val{Typ: resType}
	for i := 0; i < sig.Results().Len(); i++ {
		var vs []Val
		for _, r := range rets {
			vs = append(vs, r.vals[i])
		}
		out.Tuple = append(out.Tuple, vc.mergeVals(conds, vs, sig.Results().At(i).Type(), fmt.Sprintf("ret%d.%s", i, fn.Name())))
	}
	return out
}

// callOrdinal: ordinal of this call instruction among calls to the same callee in source order.
func (vc *VC) callOrdinal(fr *Frame, instr ssa.Instruction, name string) int {
	type ci struct {
		pos token.Pos
		idx int
		in  ssa.Instruction
	}
	var list []ci
	k := 0
	for _, b := range fr.fn.Blocks {
		for _, in := range b.Instrs {
			k++
			var cc *ssa.CallCommon
			switch x := in.(type) {
			case *ssa.Call:
				cc = &x.Call
			case *ssa.Defer:
				cc = &x.Call
			case *ssa.Go:
				cc = &x.Call
			}
			if cc == nil {
				continue
			}
			if vc.calleeName(fr, cc) == name {
				list = append(list, ci{in.Pos(), k, in})
			}
		}
	}
	sort.Slice(list, func(i, j int) bool {
		if list[i].pos != list[j].pos {
			return list[i].pos < list[j].pos
		}
		return list[i].idx < list[j].idx
	})
	for i, c := range list {
		if c.in == instr {
			return i
		}
	}
	return 0
}

func (vc *VC) calleeName(fr *Frame, c *ssa.CallCommon) string {
	if c.IsInvoke() {
		return ifaceMethodName(c.Value.Type(), c.Method.Name())
	}
	if f := c.StaticCallee(); f != nil {
		return vc.eng.displayName(f, fnPkg(fr.fn))
	}
	if u, ok := c.Value.(*ssa.UnOp); ok {
		if g, ok := u.X.(*ssa.Global); ok {
			return g.Pkg.Pkg.Name() + "." + g.Name()
		}
		if fa, ok := u.X.(*ssa.FieldAddr); ok {
			if k := fieldFnKey(fa.X.Type(), fa.Field); k != "" {
				return k[strings.Index(k, "::")+2:]
			}
		}
	}
	if f, ok := c.Value.(*ssa.Field); ok {
		if k := fieldFnKey(f.X.Type(), f.Field); k != "" {
			return k[strings.Index(k, "::")+2:]
		}
	}
	if _, isB := c.Value.(*ssa.Builtin); !isB {
		if _, isSig := c.Value.Type().Underlying().(*types.Signature); isSig {
			if _, isClo := c.Value.(*ssa.MakeClosure); !isClo {
				// any other call through a function value (slice element, map entry, local variable, parameter)
				return "$dyn"
			}
		}
	}
	return ""
}

// applyContract: assert pre, havoc modifies, assume post.
func (vc *VC) applyContract(fr *Frame, instr ssa.Instruction, spec *FuncSpec, name string, pnames []string, args []Val, resType types.Type, sig *types.Signature, st *State, callee *ssa.Function) Val {
	vc.uses[spec.Kind+" "+spec.Pkg+"::"+spec.Name] = true
	ord := 0
	if fr.top || true {
		ord = vc.callOrdinal(fr, instr, name)
	}
	cenvVars := map[string]Val{}
	for i, n := range pnames {
		if i < len(args) && n != "" && n != "_" {
			cenvVars[n] = args[i]
		}
	}
	for i := range args {
		cenvVars[fmt.Sprintf("arg%d", i)] = args[i]
	}
	if vc.dynCallee != nil {
		// call through a function-valued field: the function value itself
		cenvVars["callee"] = *vc.dynCallee
		vc.dynCallee = nil
	}
	pkg := vc.eng.pkgByPath(spec.Pkg)
	// a generic callee's contract names its own type parameters: bind them to this call's type arguments
	var targs map[string]types.Type
	if callee != nil && callee.Origin() != nil && len(callee.TypeArgs()) > 0 {
		o := callee.Origin()
		var names []string
		if rp := o.Signature.RecvTypeParams(); rp != nil {
			for i := 0; i < rp.Len(); i++ {
				names = append(names, rp.At(i).Obj().Name())
			}
		}
		if tp := o.Signature.TypeParams(); tp != nil {
			for i := 0; i < tp.Len(); i++ {
				names = append(names, tp.At(i).Obj().Name())
			}
		}
		if len(names) == len(callee.TypeArgs()) {
			targs = map[string]types.Type{}
			for i, n := range names {
				targs[n] = callee.TypeArgs()[i]
			}
		}
	}
	mkEnv := func(cur, old *State, extra map[string]Val) *SpecEnv {
		env := &SpecEnv{vc: vc, fr: fr, pkg: pkg, st: cur, old: old, vars: map[string]Val{}, targs: targs}
		for k, v := range cenvVars {
			env.vars[k] = v
		}
		for k, v := range extra {
			env.vars[k] = v
		}
		return env
	}
	// preconditions
	for _, c := range spec.Requires {
		f := vc.trBool(mkEnv(st, st, nil), c.E)
		vc.oblige(st, fmt.Sprintf("%s#call.%s#%d.pre.%d", vc.fnNameOf(fr), name, ord, c.Idx), "requires-at-call", f, c.Src, instr.Pos())
	}
	pre := st.clone()
	// havoc
	if spec.HasMod {
		for _, m := range spec.Modifies {
			vc.havocLoc(mkEnv(pre, pre, nil), st, m)
		}
	} else if callee != nil {
		target := callee
		if callee.Origin() != nil {
			target = callee.Origin()
		}
		vc.havocModset(st, vc.eng.modsetOf(target))
	}
	vc.bumpEvent(st, name)
	res := vc.freshResult(st, resType, name)
	if spec.Kind != "func" {
		res = zeroOffsets(res)
	} else {
		// a (verified) postcondition of the exact form `off(retK) == 0` is used syntactically
		for _, c := range spec.Ensures {
			if k, ok := offZeroClause(c.E); ok {
				if sig.Results().Len() == 1 && k == 0 && res.Sl != nil {
					res.Sl = &SliceVal{res.Sl.Arr, "0", res.Sl.Len, res.Sl.Cap}
				} else if k < len(res.Tuple) && res.Tuple[k].Sl != nil {
					s := res.Tuple[k].Sl
					res.Tuple[k].Sl = &SliceVal{s.Arr, "0", s.Len, s.Cap}
				}
			}
		}
	}
	results := map[string]Val{}
	rl := sig.Results()
	for i := 0; i < rl.Len(); i++ {
		var rv Val
		if rl.Len() == 1 {
			rv = res
		} else {
			rv = res.Tuple[i]
		}
		results[fmt.Sprintf("ret%d", i)] = rv
		results[fmt.Sprintf("res%d", i)] = rv
		if n := rl.At(i).Name(); n != "" && n != "_" {
			results[n] = rv
		}
		if rl.Len() == 1 {
			results["ret"] = rv
		}
		if types.Identical(rl.At(i).Type(), errorType) && i == rl.Len()-1 {
			if _, ok := results["err"]; !ok {
				results["err"] = rv
			}
		}
	}
	if spec.FreshRet && res.T != "" {
		vc.assume(st, fmt.Sprintf("(> %s %s)", res.T, vc.get(pre, vc.nextComp())))
	}
	if spec.DetFn != "" && res.T != "" {
		if sf := vc.eng.specs.Specs[spec.DetFn]; sf != nil && sf.Body == nil && len(sf.Params) == len(args) {
			var aes []Expr
			env := mkEnv(st, pre, results)
			for i := range args {
				aes = append(aes, &EIdent{Name: fmt.Sprintf("arg%d", i)})
			}
			r := vc.applySpecFun(env, sf, aes, nil)
			vc.assume(st, fmt.Sprintf("(= %s %s)", res.T, r.T))
			vc.note("ASSUMED: " + name + " is a deterministic function of its arguments (its result is written " + spec.DetFn + "(...))")
		} else {
			vc.specErr("function %s: no uninterpreted spec function of %d arguments", spec.DetFn, len(args))
		}
	}
	for _, c := range spec.Ensures {
		// a postcondition that mentions the callee's own local variables is checked in the callee only;
		// it says nothing a caller could use
		nf := len(vc.fatal)
		f := vc.trBool(mkEnv(st, pre, results), c.E)
		if len(vc.fatal) > nf {
			// (errors that follow from the unresolved name — a selector or slice on the placeholder — are part of the same cause)
			onlyUnknown := false
			for _, m := range vc.fatal[nf:] {
				if strings.HasPrefix(m, "spec: unknown identifier") {
					onlyUnknown = true
				}
			}
			if onlyUnknown {
				vc.fatal = vc.fatal[:nf]
				continue
			}
		}
		vc.assume(st, f)
	}
	return res
}

func (fr *Frame) oldStOrSelf(cur *State) *State {
	if fr.oldSt != nil {
		return fr.oldSt
	}
	return cur
}

func (vc *VC) fnNameOf(fr *Frame) string {
	if fr.top {
		return vc.fnName()
	}
	return vc.fnName() + "/" + vc.eng.specName(fr.fn)
}

func (vc *VC) ghostAssign(env *SpecEnv, st *State, g GhostSet) {
	rhs := vc.trExpr(env, g.RHS)
	switch l := g.LHS.(type) {
	case *EIdent:
		c, gg := vc.ghostComp(env, l.Name)
		if gg == nil {
			vc.specErr("ghost assignment to unknown ghost %s", l.Name)
			return
		}
		vc.set(st, c, vc.valTerm(rhs))
	case *EIndex:
		id, ok := l.X.(*EIdent)
		if !ok {
			vc.specErr("unsupported ghost lhs %s", g.LHS)
			return
		}
		c, gg := vc.ghostComp(env, id.Name)
		if gg == nil {
			vc.specErr("ghost assignment to unknown ghost %s", id.Name)
			return
		}
		k := vc.trExpr(env, l.I)
		vc.set(st, c, fmt.Sprintf("(store %s %s %s)", vc.get(st, c), vc.valTerm(k), vc.valTerm(rhs)))
	default:
		vc.specErr("unsupported ghost lhs %s", g.LHS)
	}
}

// havocLoc havocs one modifies-location.
func (vc *VC) havocLoc(env *SpecEnv, st *State, loc Expr) {
	for _, l := range vc.locsOf(env, loc) {
		vc.havocOne(st, l)
	}
}

// Loc: a heap component, optionally restricted to one reference (row/object).
type Loc struct {
	Comp   string
	Ref    string // "" = whole component
	Key    string // for ghost maps: key restriction
	Prior  bool   // whole component restricted to the objects allocated before the loop (loop frames only)
	Lo, Hi string // element range inside the row Ref (absolute indices); "" = whole row
}

func (vc *VC) havocOne(st *State, l Loc) {
	sort := vc.compSort[l.Comp]
	if l.Ref == "" || !strings.HasPrefix(sort, "(Array ") {
		vc.havoc(st, l.Comp)
		return
	}
	// element sort of the array
	inner := arrayElemSort(sort)
	fv := vc.freshConst("hv", inner)
	if l.Lo != "" && strings.HasPrefix(inner, "(Array Int ") {
		old := fmt.Sprintf("(select %s %s)", vc.get(st, l.Comp), l.Ref)
		vc.emit(fmt.Sprintf("(assert (forall ((k Int)) (! (=> (or (< k %s) (>= k %s)) (= (select %s k) (select %s k))) :pattern ((select %s k)))))", l.Lo, l.Hi, fv, old, fv))
	}
	vc.set(st, l.Comp, fmt.Sprintf("(store %s %s %s)", vc.get(st, l.Comp), l.Ref, fv))
}

func arrayElemSort(sort string) string {
	// "(Array K V)" -> V
	parts := splitSexp(sort[1 : len(sort)-1])
	if len(parts) == 3 {
		return parts[2]
	}
	return "Int"
}

// locsOf translates a modifies expression into locations.
func (vc *VC) locsOf(env *SpecEnv, e Expr) []Loc {
	switch x := e.(type) {
	case *EIdent:
		if c, g := vc.ghostComp(env, x.Name); g != nil {
			return []Loc{{Comp: c}}
		}
		if x.Name == "$all" {
			var out []Loc
			for c := range vc.compSort {
				if !strings.HasPrefix(c, "$") {
					out = append(out, Loc{Comp: c})
				}
			}
			return out
		}
		if x.Name == "$alloc" {
			return []Loc{{Comp: vc.nextComp()}}
		}
		// package-level variable
		if env.pkg != nil {
			if obj, ok := env.pkg.Scope().Lookup(x.Name).(*types.Var); ok {
				return []Loc{{Comp: vc.comp("G_"+sanitize(env.pkg.Name())+"."+sanitize(x.Name), vc.sortOf(obj.Type()))}}
			}
		}
	case *ECall:
		if id, ok := x.Fun.(*EIdent); ok {
			switch id.Name {
			case "called", "ev", "ncalls":
				return []Loc{{Comp: vc.eventComp(exprName(x.Args[0]))}}
			case "fields":
				// fields(p): every field of the object p points to
				v := vc.trExpr(env, x.Args[0])
				return vc.objLocs(v)
			case "elems":
				v := vc.trExpr(env, x.Args[0])
				if v.Sl != nil {
					el := v.Typ.Underlying().(*types.Slice).Elem()
					return []Loc{{Comp: vc.elemComp(el), Ref: v.Sl.Arr}}
				}
			case "allfields":
				// allfields(T.f): whole field array
				if sel, ok := x.Args[0].(*ESel); ok {
					t := vc.resolveType(env, exprName(sel.X))
					// a generic type named without arguments: the instance over the current function's own type
					// parameters of the same names (Node means Node[TK, TV] inside a method of Btree[TK, TV])
					if n, isN := t.(*types.Named); isN && n.TypeParams().Len() > 0 && n.TypeArgs().Len() == 0 {
						var names []string
						for i := 0; i < n.TypeParams().Len(); i++ {
							names = append(names, n.TypeParams().At(i).Obj().Name())
						}
						nf := len(vc.fatal)
						if it := vc.resolveType(env, exprName(sel.X)+"["+strings.Join(names, ",")+"]"); it != nil {
							t = it
						}
						vc.fatal = vc.fatal[:nf]
					}
					if st, ok2 := isStruct(t); ok2 && t != nil {
						if i, _ := findField(st, sel.Name); i >= 0 {
							return []Loc{{Comp: vc.fieldComp(t, i)}}
						}
					}
				}
			case "prior":
				// prior(allfields(T.f)) / prior(allelems(T)): the component at every object that existed before the loop
				ls := vc.locsOf(env, x.Args[0])
				for i := range ls {
					if ls[i].Ref == "" {
						ls[i].Prior = true
					}
				}
				return ls
			case "allelems":
				t := vc.resolveType(env, exprName(x.Args[0]))
				if t != nil {
					return []Loc{{Comp: vc.elemComp(t)}}
				}
			case "mapof":
				v := vc.trExpr(env, x.Args[0])
				if mt, ok := v.Typ.Underlying().(*types.Map); ok {
					a, b := vc.mapComps(mt)
					return []Loc{{Comp: a, Ref: v.T}, {Comp: b, Ref: v.T}, {Comp: vc.mapLenComp(), Ref: v.T}}
				}
			}
		}
	case *EUn:
		if x.Op == "*" {
			v := vc.trExpr(env, x.X)
			return vc.objLocs(v)
		}
	case *ESel:
		base := vc.trExpr(env, x.X)
		if base.Typ != nil {
			if pt, ok := base.Typ.Underlying().(*types.Pointer); ok {
				if st, ok := isStruct(pt.Elem()); ok {
					i, _ := findField(st, x.Name)
					if i >= 0 {
						a := vc.addrOfPtr(base)
						if a.Kind == aObj && len(a.Path) == 0 {
							return []Loc{{Comp: vc.fieldComp(pt.Elem(), i), Ref: a.Ref}}
						}
						// pointer to an element of a slice / array row (&s[k]): the whole element may change
						// (coarser than the named field; the callee's postconditions say what is kept)
						if a.Kind == aRow && len(a.Path) >= 1 && a.Path[0].IsIndex {
							return []Loc{{Comp: vc.elemComp(a.Elem), Ref: a.Ref, Lo: a.Path[0].Index, Hi: fmt.Sprintf("(+ %s 1)", a.Path[0].Index)}}
						}
					}
				}
			}
		}
	case *EIndex:
		// ghost map entry: g[k]
		if id, ok := x.X.(*EIdent); ok {
			if c, g := vc.ghostComp(env, id.Name); g != nil {
				k := vc.trExpr(env, x.I)
				return []Loc{{Comp: c, Ref: vc.valTerm(k)}}
			}
		}
		base := vc.trExpr(env, x.X)
		if base.Sl != nil {
			el := base.Typ.Underlying().(*types.Slice).Elem()
			return []Loc{{Comp: vc.elemComp(el), Ref: base.Sl.Arr}}
		}
	case *ESlice:
		base := vc.trExpr(env, x.X)
		if base.Sl != nil {
			el := base.Typ.Underlying().(*types.Slice).Elem()
			lo, hi := "0", base.Sl.Len
			if x.Lo != nil {
				lo = vc.trExpr(env, x.Lo).T
			}
			if x.Hi != nil {
				hi = vc.trExpr(env, x.Hi).T
			}
			return []Loc{{Comp: vc.elemComp(el), Ref: base.Sl.Arr, Lo: addT(base.Sl.Off, lo), Hi: addT(base.Sl.Off, hi)}}
		}
	}
	vc.specErr("unsupported modifies location %s", e)
	return nil
}

func (vc *VC) objLocs(v Val) []Loc {
	if v.Typ == nil {
		return nil
	}
	pt, ok := v.Typ.Underlying().(*types.Pointer)
	if !ok {
		return nil
	}
	if st, ok := isStruct(pt.Elem()); ok {
		var out []Loc
		for i := 0; i < st.NumFields(); i++ {
			out = append(out, Loc{Comp: vc.fieldComp(pt.Elem(), i), Ref: v.T})
		}
		return out
	}
	if at, ok := pt.Elem().Underlying().(*types.Array); ok {
		return []Loc{{Comp: vc.elemComp(at.Elem()), Ref: v.T}}
	}
	return []Loc{{Comp: vc.cellComp(pt.Elem()), Ref: v.T}}
}

func (vc *VC) havocAll(st *State) {
	var cs []string
	for c := range vc.compSort {
		if !strings.HasPrefix(c, "$") && !strings.HasPrefix(c, "ev.") && !strings.HasPrefix(c, "ghost.") {
			cs = append(cs, c)
		}
	}
	sort.Strings(cs)
	before := map[string]string{}
	for _, c := range cs {
		before[c] = vc.get(st, c)
		vc.havoc(st, c)
	}
	// cells of the current function's own local variables (address-taken locals, e.g. captured by closures) survive
	for _, lc := range vc.localCells {
		if old, ok := before[lc[0]]; ok {
			vc.set(st, lc[0], fmt.Sprintf("(store %s %s (select %s %s))", vc.get(st, lc[0]), lc[1], old, lc[1]))
		}
	}
	vc.note("a call through an unknown function value havocs every heap component known so far, except the calling function's own local variables")
}

// ---------------------------------------------------------------- modsets (flow-insensitive)

type ModSet struct {
	Comps   map[string]func(vc *VC) string // component key -> maker (declares the component in the VC)
	Unknown bool
	Events  map[string]bool
	Allocs  bool
}

func (vc *VC) havocModset(st *State, ms *ModSet) {
	var keys []string
	for k := range ms.Comps {
		keys = append(keys, k)
	}
	sort.Strings(keys)
	for _, k := range keys {
		c := ms.Comps[k](vc)
		vc.havoc(st, c)
	}
	for ev := range ms.Events {
		if vc.eng.trackedEvents[ev] {
			c := vc.eventComp(ev)
			n := vc.freshConst(c, "Int")
			vc.emit(fmt.Sprintf("(assert (>= %s %s))", n, vc.get(st, c)))
			st.heap[c] = n
		}
	}
	if ms.Allocs {
		nc := vc.nextComp()
		n := vc.freshConst("next", "Int")
		vc.emit(fmt.Sprintf("(assert (>= %s %s))", n, vc.get(st, nc)))
		st.heap[nc] = n
	}
	if ms.Unknown {
		vc.havocAll(st)
	}
}

func (eng *Engine) modsetOf(fn *ssa.Function) *ModSet {
	eng.mu.Lock()
	defer eng.mu.Unlock()
	if ms, ok := eng.modsets[fn]; ok {
		return ms
	}
	ms := &ModSet{Comps: map[string]func(vc *VC) string{}, Events: map[string]bool{}}
	eng.modsets[fn] = ms // cycle guard: recursive calls see the partial set
	eng.collectMods(fn, ms, map[*ssa.Function]bool{})
	return ms
}

func (eng *Engine) collectMods(fn *ssa.Function, ms *ModSet, seen map[*ssa.Function]bool) {
	if seen[fn] {
		return
	}
	seen[fn] = true
	if fn.Origin() != nil && len(fn.Blocks) == 0 {
		fn = fn.Origin()
	}
	for _, b := range fn.Blocks {
		for _, in := range b.Instrs {
			switch x := in.(type) {
			case *ssa.Store:
				eng.addrMod(x.Addr, ms)
			case *ssa.MapUpdate:
				mt := x.Map.Type().Underlying().(*types.Map)
				addMapMods(mt, ms)
			case *ssa.Alloc, *ssa.MakeSlice, *ssa.MakeMap, *ssa.MakeClosure, *ssa.MakeInterface:
				ms.Allocs = true
			case *ssa.Go:
				ms.Unknown = true
			case *ssa.Call, *ssa.Defer:
				var cc *ssa.CallCommon
				if c, ok := x.(*ssa.Call); ok {
					cc = &c.Call
				} else {
					cc = &x.(*ssa.Defer).Call
				}
				eng.callMods(fn, cc, ms, seen)
			}
		}
	}
	for _, af := range fn.AnonFuncs {
		eng.collectMods(af, ms, seen)
	}
}

func addMapMods(mt *types.Map, ms *ModSet) {
	k := "map:" + mt.String()
	ms.Comps[k+":v"] = func(vc *VC) string { a, _ := vc.mapComps(mt); return a }
	ms.Comps[k+":d"] = func(vc *VC) string { _, b := vc.mapComps(mt); return b }
	ms.Comps["maplen"] = func(vc *VC) string { return vc.mapLenComp() }
}

func (eng *Engine) addrMod(addr ssa.Value, ms *ModSet) {
	switch a := addr.(type) {
	case *ssa.FieldAddr:
		// root of the chain
		root := a
		for {
			if inner, ok := root.X.(*ssa.FieldAddr); ok {
				root = inner
				continue
			}
			break
		}
		if ia, ok := root.X.(*ssa.IndexAddr); ok {
			eng.addrMod(ia, ms)
			return
		}
		if _, ok := root.X.(*ssa.Alloc); ok {
			// store into a locally allocated object: invisible to callers unless it escapes
			return
		}
		pt, ok := root.X.Type().Underlying().(*types.Pointer)
		if !ok {
			ms.Unknown = true
			return
		}
		t := pt.Elem()
		fld := root.Field
		ms.Comps["field:"+t.String()+fmt.Sprintf("#%d", fld)] = func(vc *VC) string { return vc.fieldComp(t, fld) }
	case *ssa.IndexAddr:
		switch u := a.X.Type().Underlying().(type) {
		case *types.Slice:
			el := u.Elem()
			ms.Comps["elem:"+el.String()] = func(vc *VC) string { return vc.elemComp(el) }
		case *types.Pointer:
			if _, ok := a.X.(*ssa.Alloc); ok {
				return
			}
			if at, ok := u.Elem().Underlying().(*types.Array); ok {
				el := at.Elem()
				ms.Comps["elem:"+el.String()] = func(vc *VC) string { return vc.elemComp(el) }
			}
		}
	case *ssa.Alloc:
		return
	case *ssa.Global:
		g := a
		ms.Comps["global:"+globalKey(g)] = func(vc *VC) string { return vc.globalComp(g) }
	default:
		pt, ok := addr.Type().Underlying().(*types.Pointer)
		if !ok {
			ms.Unknown = true
			return
		}
		t := pt.Elem()
		if st, ok := isStruct(t); ok {
			for i := 0; i < st.NumFields(); i++ {
				i := i
				ms.Comps["field:"+t.String()+fmt.Sprintf("#%d", i)] = func(vc *VC) string { return vc.fieldComp(t, i) }
			}
			return
		}
		ms.Comps["cell:"+t.String()] = func(vc *VC) string { return vc.cellComp(t) }
	}
}

func (eng *Engine) callMods(caller *ssa.Function, cc *ssa.CallCommon, ms *ModSet, seen map[*ssa.Function]bool) {
	if b, ok := cc.Value.(*ssa.Builtin); ok {
		switch b.Name() {
		case "append", "copy", "clear":
			if len(cc.Args) > 0 {
				switch u := cc.Args[0].Type().Underlying().(type) {
				case *types.Slice:
					el := u.Elem()
					ms.Comps["elem:"+el.String()] = func(vc *VC) string { return vc.elemComp(el) }
					ms.Allocs = true
				case *types.Map:
					addMapMods(u, ms)
				}
			}
		case "delete":
			if mt, ok := cc.Args[0].Type().Underlying().(*types.Map); ok {
				addMapMods(mt, ms)
			}
		}
		return
	}
	if cc.IsInvoke() {
		name := ifaceMethodName(cc.Value.Type(), cc.Method.Name())
		ms.Events[name] = true
		pkgPath := ""
		if n, ok := types.Unalias(cc.Value.Type()).(*types.Named); ok && n.Obj().Pkg() != nil {
			pkgPath = n.Obj().Pkg().Path()
		}
		if spec := eng.specs.Funcs[specKey(pkgPath, name)]; spec != nil {
			eng.specMods(spec, ms)
		}
		return
	}
	callee := cc.StaticCallee()
	if callee == nil {
		// closure variable / function value: if it is a local closure, its body is in AnonFuncs (collected separately)
		return
	}
	name := eng.displayName(callee, fnPkg(caller))
	ms.Events[name] = true
	if spec := eng.lookupSpec(callee); spec != nil && spec.HasMod {
		eng.specMods(spec, ms)
		return
	}
	p := fnPkg(callee)
	if p == nil || !eng.inRepo(p.Path()) {
		// library function without contract: assumed not to write repository-visible state
		// other than the elements of slices / pointees passed to it
		for _, a := range cc.Args {
			switch u := a.Type().Underlying().(type) {
			case *types.Slice:
				el := u.Elem()
				if isWritableLibArg(callee) {
					ms.Comps["elem:"+el.String()] = func(vc *VC) string { return vc.elemComp(el) }
				}
			}
		}
		return
	}
	eng.collectMods(callee, ms, seen)
}

func isWritableLibArg(fn *ssa.Function) bool {
	// conservative: library functions that commonly write into their slice arguments
	switch fn.String() {
	case "(encoding/binary.littleEndian).PutUint32", "(encoding/binary.littleEndian).PutUint64", "(encoding/binary.littleEndian).PutUint16",
		"(encoding/binary.bigEndian).PutUint32", "(encoding/binary.bigEndian).PutUint64", "io.ReadFull", "crypto/rand.Read", "sort.Slice", "sort.Strings", "sort.Ints":
		return true
	}
	return false
}

// specMods adds the (coarse) components named in a contract's modifies clause.
func (eng *Engine) specMods(spec *FuncSpec, ms *ModSet) {
	for _, m := range spec.Modifies {
		m := m
		spec := spec
		key := "spec:" + spec.Pkg + "::" + spec.Name + ":" + m.String()
		switch x := m.(type) {
		case *ECall:
			if id, ok := x.Fun.(*EIdent); ok && (id.Name == "called" || id.Name == "ev") {
				ms.Events[exprName(x.Args[0])] = true
				continue
			}
		}
		ms.Comps[key] = func(vc *VC) string {
			// coarse: translate with an environment that cannot resolve parameters -> whole component
			return vc.coarseComp(spec, m)
		}
	}
}

// coarseComp resolves a modifies expression to its whole component (ignoring which object).
func (vc *VC) coarseComp(spec *FuncSpec, m Expr) string {
	pkg := vc.eng.pkgByPath(spec.Pkg)
	env := &SpecEnv{vc: vc, pkg: pkg, st: &State{pc: "true", heap: map[string]string{}}, vars: map[string]Val{}}
	env.old = env.st
	switch x := m.(type) {
	case *EIdent:
		if c, g := vc.ghostComp(env, x.Name); g != nil {
			return c
		}
	case *EIndex:
		if id, ok := x.X.(*EIdent); ok {
			if c, g := vc.ghostComp(env, id.Name); g != nil {
				return c
			}
		}
	}
	// typed resolution needs the callee's parameter types
	fn := vc.eng.findFunc(spec)
	if fn != nil {
		// the contract of a generic function names its own type parameters
		env.targs = map[string]types.Type{}
		for _, l := range []*types.TypeParamList{fn.Signature.RecvTypeParams(), fn.Signature.TypeParams()} {
			if l != nil {
				for i := 0; i < l.Len(); i++ {
					env.targs[l.At(i).Obj().Name()] = l.At(i)
				}
			}
		}
		st := &State{pc: "true", heap: map[string]string{}}
		for _, p := range fn.Params {
			env.vars[p.Name()] = vc.freshVal(st, p.Type(), "coarse."+p.Name())
		}
	}
	locs := vc.locsOf(env, m)
	if len(locs) > 0 {
		return locs[0].Comp
	}
	return vc.nextComp()
}

// ---------------------------------------------------------------- builtins

func (vc *VC) builtin(fr *Frame, instr ssa.Instruction, b *ssa.Builtin, c *ssa.CallCommon, st *State) Val {
	arg := func(i int) Val { return vc.operand(fr, c.Args[i]) }
	resT := c.Signature().Results()
	var rt types.Type
	if resT.Len() == 1 {
		rt = resT.At(0).Type()
	}
	switch b.Name() {
	case "len":
		v := arg(0)
		if v.Sl != nil {
			return Val{T: v.Sl.Len, Typ: rt}
		}
		switch u := c.Args[0].Type().Underlying().(type) {
		case *types.Basic:
			return Val{T: fmt.Sprintf("(str.len %s)", v.T), Typ: rt}
		case *types.Map:
			r := Val{T: vc.define("maplen", "Int", fmt.Sprintf("(ite (= %s 0) 0 (select %s %s))", v.T, vc.get(st, vc.mapLenComp()), v.T)), Typ: rt}
			vc.assume(st, fmt.Sprintf("(>= %s 0)", r.T))
			return r
		case *types.Array:
			return Val{T: fmt.Sprintf("%d", u.Len()), Typ: rt}
		case *types.Pointer:
			if at, ok := u.Elem().Underlying().(*types.Array); ok {
				return Val{T: fmt.Sprintf("%d", at.Len()), Typ: rt}
			}
		}
		vc.fatalf("len of %v", c.Args[0].Type())
		return Val{T: "0", Typ: rt}
	case "cap":
		v := arg(0)
		if v.Sl != nil {
			return Val{T: v.Sl.Cap, Typ: rt}
		}
		vc.fatalf("cap of %v", c.Args[0].Type())
		return Val{T: "0", Typ: rt}
	case "append":
		return vc.appendOp(fr, c, st)
	case "copy":
		return vc.copyOp(fr, c, st)
	case "delete":
		m := arg(0)
		mt := c.Args[0].Type().Underlying().(*types.Map)
		vc.mapDelete(st, mt, m.T, vc.valTerm(arg(1)))
		return Val{}
	case "clear":
		v := arg(0)
		if v.Sl != nil {
			el := c.Args[0].Type().Underlying().(*types.Slice).Elem()
			comp := vc.elemComp(el)
			es := vc.sortOf(el)
			row := vc.freshConst("clr", fmt.Sprintf("(Array Int %s)", es))
			old := fmt.Sprintf("(select %s %s)", vc.get(st, comp), v.Sl.Arr)
			vc.emit(fmt.Sprintf("(assert (forall ((i Int)) (! (= (select %s i) (ite (and (<= %s i) (< i (+ %s %s))) %s (select %s i))) :pattern ((select %s i)))))", row, v.Sl.Off, v.Sl.Off, v.Sl.Len, vc.zeroOfSort(es, el), old, row))
			vc.set(st, comp, fmt.Sprintf("(store %s %s %s)", vc.get(st, comp), v.Sl.Arr, row))
			return Val{}
		}
		vc.fatalf("clear of map (unsupported)")
		return Val{}
	case "min", "max":
		a, bb := arg(0), arg(1)
		op := "<="
		if b.Name() == "max" {
			op = ">="
		}
		return Val{T: fmt.Sprintf("(ite (%s %s %s) %s %s)", op, a.T, bb.T, a.T, bb.T), Typ: rt}
	case "print", "println":
		return Val{}
	case "ssa:wrapnilchk":
		v := arg(0)
		return v
	case "recover":
		return Val{T: "0", Typ: rt}
	case "panic":
		return Val{}
	}
	vc.fatalf("unsupported builtin %s", b.Name())
	if rt != nil {
		return vc.zeroVal(rt)
	}
	return Val{}
}

// appendOp: result may alias the old backing array (when capacity suffices) or be a fresh array.
func (vc *VC) appendOp(fr *Frame, c *ssa.CallCommon, st *State) Val {
	s := vc.operand(fr, c.Args[0])
	t := vc.operand(fr, c.Args[1])
	st0 := c.Args[0].Type()
	slT, ok := st0.Underlying().(*types.Slice)
	if !ok {
		vc.fatalf("append to %v", st0)
		return s
	}
	el := slT.Elem()
	comp := vc.elemComp(el)
	es := vc.sortOf(el)
	var tl, tOff, tRow string
	if t.Sl != nil {
		tl, tOff = t.Sl.Len, t.Sl.Off
		tRow = fmt.Sprintf("(select %s %s)", vc.get(st, comp), t.Sl.Arr)
	} else {
		// append([]byte, string...)
		tl = fmt.Sprintf("(str.len %s)", t.T)
		tOff = "0"
		tr := vc.freshConst("strrow", "(Array Int Int)")
		vc.emit(fmt.Sprintf("(assert (forall ((i Int)) (! (=> (and (<= 0 i) (< i %s)) (= (select %s i) (str.to_code (str.at %s i)))) :pattern ((select %s i)))))", tl, tr, t.T, tr))
		tRow = tr
	}
	newLen := vc.define("applen", "Int", fmt.Sprintf("(+ %s %s)", s.Sl.Len, tl))
	fits := vc.define("appfits", "Bool", fmt.Sprintf("(and (<= %s %s) (not (= %s 0)))", newLen, s.Sl.Cap, s.Sl.Arr))
	fresh := vc.alloc(st, "append")
	resArr := vc.define("apparr", "Int", fmt.Sprintf("(ite %s %s %s)", fits, s.Sl.Arr, fresh))
	resOff := "0"
	if s.Sl.Off != "0" {
		resOff = vc.define("appoff", "Int", fmt.Sprintf("(ite %s %s 0)", fits, s.Sl.Off))
	}
	resCap := vc.freshConst("appcap", "Int")
	vc.emit(fmt.Sprintf("(assert (and (>= %s %s) (=> %s (= %s %s))))", resCap, newLen, fits, resCap, s.Sl.Cap))
	// new row content: positions [off, off+len) keep old content, [off+len, off+newLen) = t
	oldRow := fmt.Sprintf("(select %s %s)", vc.get(st, comp), s.Sl.Arr)
	row := vc.freshConst("approw", fmt.Sprintf("(Array Int %s)", es))
	if t.Sl != nil && isLiteralInt(tl) && tl == "1" && s.Sl.Off == "0" {
		// single element append to a slice at offset 0 (the common case), quantifier-free in both cases: the result row is the
		// old row with the element stored at index len. When a new array is allocated its cells beyond the new length are
		// zero in Go; here they are left unconstrained (they lie beyond the old capacity) - an over-approximation.
		vc.emit(fmt.Sprintf("(assert (= %s (store %s %s (select %s %s))))", row, oldRow, s.Sl.Len, tRow, tOff))
	} else if t.Sl != nil && isLiteralInt(tl) && tl == "1" {
		// single element append: no quantifier over the new part
		vc.emit(fmt.Sprintf("(assert (=> %s (= %s (store %s (+ %s %s) (select %s %s)))))", fits, row, oldRow, s.Sl.Off, s.Sl.Len, tRow, tOff))
		vc.emit(fmt.Sprintf("(assert (=> (not %s) (and (= (select %s %s) (select %s %s)) (forall ((i Int)) (! (=> (and (<= 0 i) (< i %s)) (= (select %s i) (select %s (+ %s i)))) :pattern ((select %s i)))))))", fits, row, s.Sl.Len, tRow, tOff, s.Sl.Len, row, oldRow, s.Sl.Off, row))
	} else {
		vc.emit(fmt.Sprintf("(assert (forall ((i Int)) (! (and (=> (and (<= 0 i) (< i %s)) (= (select %s (+ %s i)) (select %s (+ %s i)))) (=> (and (<= %s i) (< i %s)) (= (select %s (+ %s i)) (select %s (+ %s (- i %s)))))) :pattern ((select %s (+ %s i))))))",
			s.Sl.Len, row, resOff, oldRow, s.Sl.Off, s.Sl.Len, newLen, row, resOff, tRow, tOff, s.Sl.Len, row, resOff))
		vc.emit(fmt.Sprintf("(assert (=> %s (forall ((i Int)) (! (=> (or (< i (+ %s %s)) (>= i (+ %s %s))) (= (select %s i) (select %s i))) :pattern ((select %s i))))))", fits, s.Sl.Off, s.Sl.Len, s.Sl.Off, newLen, row, oldRow, row))
	}
	vc.set(st, comp, fmt.Sprintf("(store %s %s %s)", vc.get(st, comp), resArr, row))
	return Val{Sl: &SliceVal{resArr, resOff, newLen, resCap}, Typ: st0}
}

// copyOp: memmove semantics.
func (vc *VC) copyOp(fr *Frame, c *ssa.CallCommon, st *State) Val {
	d := vc.operand(fr, c.Args[0])
	s := vc.operand(fr, c.Args[1])
	slT := c.Args[0].Type().Underlying().(*types.Slice)
	el := slT.Elem()
	comp := vc.elemComp(el)
	es := vc.sortOf(el)
	var sl, sOff, sRow string
	if s.Sl != nil {
		sl, sOff = s.Sl.Len, s.Sl.Off
		sRow = fmt.Sprintf("(select %s %s)", vc.get(st, comp), s.Sl.Arr)
	} else {
		sl = fmt.Sprintf("(str.len %s)", s.T)
		sOff = "0"
		tr := vc.freshConst("strrow", "(Array Int Int)")
		vc.emit(fmt.Sprintf("(assert (forall ((i Int)) (! (=> (and (<= 0 i) (< i %s)) (= (select %s i) (str.to_code (str.at %s i)))) :pattern ((select %s i)))))", sl, tr, s.T, tr))
		sRow = tr
	}
	n := vc.define("copyn", "Int", fmt.Sprintf("(ite (<= %s %s) %s %s)", d.Sl.Len, sl, d.Sl.Len, sl))
	dRow := fmt.Sprintf("(select %s %s)", vc.get(st, comp), d.Sl.Arr)
	row := vc.freshConst("cprow", fmt.Sprintf("(Array Int %s)", es))
	// row[k] = (dOff <= k < dOff+n) ? sRow[sOff + (k - dOff)] : dRow[k]      (sRow is the pre-state: memmove)
	vc.emit(fmt.Sprintf("(assert (forall ((k Int)) (! (= (select %s k) (ite (and (<= %s k) (< k (+ %s %s))) (select %s (+ %s (- k %s))) (select %s k))) :pattern ((select %s k)))))",
		row, d.Sl.Off, d.Sl.Off, n, sRow, sOff, d.Sl.Off, dRow, row))
	// functions of slice contents agree on the copied range (instances of extensionality)
	for _, uf := range vc.sliceUFs {
		if uf[1] == fmt.Sprintf("(Array Int %s)", es) {
			vc.emit(fmt.Sprintf("(assert (forall ((x Int) (y Int)) (! (=> (and (<= %s x) (<= 0 y) (<= (+ x y) (+ %s %s))) (= (%s %s x y) (%s %s (+ (- x %s) %s) y))) :pattern ((%s %s x y)))))",
				d.Sl.Off, d.Sl.Off, n, uf[0], row, uf[0], sRow, d.Sl.Off, sOff, uf[0], row))
		}
	}
	vc.set(st, comp, fmt.Sprintf("(store %s %s %s)", vc.get(st, comp), d.Sl.Arr, row))
	return Val{T: n, Typ: types.Typ[types.Int]}
}

// ---------------------------------------------------------------- defers

func (vc *VC) runDefers(fr *Frame, st *State) {
	for i := len(fr.defers) - 1; i >= 0; i-- {
		d := fr.defers[i]
		flag := vc.get(st, d.flag)
		if flag == "false" {
			continue
		}
		// execute the deferred call on a copy, then merge under the flag
		taken := st.clone()
		vc.assumeInto(taken, st.pc, flag)
		vc.execDeferred(fr, d, taken)
		if flag == "true" {
			st.pc, st.heap = taken.pc, taken.heap
			continue
		}
		skipped := st.clone()
		vc.assumeInto(skipped, st.pc, "(not "+flag+")")
		m := vc.merge([]edgeIn{{taken.pc, taken}, {skipped.pc, skipped}}, "defer")
		st.pc, st.heap = m.pc, m.heap
	}
}

func (vc *VC) assumeInto(st *State, pc, f string) {
	n := vc.freshConst("pc", "Bool")
	vc.emit(fmt.Sprintf("(assert (= %s (and %s %s)))", n, pc, f))
	st.pc = n
}

func (vc *VC) execDeferred(fr *Frame, d *deferRec, st *State) {
	c := &d.instr.Call
	// Build a synthetic environment: operands were captured at defer time.
	saved := map[ssa.Value]Val{}
	for i, a := range c.Args {
		if old, ok := fr.env[a]; ok {
			saved[a] = old
		}
		if _, isConst := a.(*ssa.Const); !isConst {
			fr.env[a] = d.args[i]
		}
	}
	if _, isFn := c.Value.(*ssa.Function); !isFn {
		if _, isB := c.Value.(*ssa.Builtin); !isB {
			if old, ok := fr.env[c.Value]; ok {
				saved[c.Value] = old
			}
			fr.env[c.Value] = d.fnVal
		}
	}
	vc.call(fr, d.instr, c, st)
	for k, v := range saved {
		fr.env[k] = v
	}
}

// ---------------------------------------------------------------- loops

type loopLoc struct {
	comp  string
	ref   string // "" = whole
	whole bool
}

func (vc *VC) loopHead(fr *Frame, li *loopInfo, st *State, phis []*ssa.Phi, entryPhi map[*ssa.Phi]Val) *State {
	var ls *LoopSpec
	if fr.spec != nil {
		ls = fr.spec.Loops[li.ord]
	}
	fname := vc.fnNameOf(fr)
	// 1. invariants on entry
	locals := vc.loopLocals(fr, li, phis, func(ph *ssa.Phi) Val { return entryPhi[ph] }, st)
	if ls != nil {
		for _, inv := range ls.Invariants {
			env := vc.specEnvCur(fr, st, fr.oldStOrSelf(st), locals)
			f := vc.trBool(env, inv.E)
			vc.oblige(st, fmt.Sprintf("%s#loop%d.entry.%d", fname, li.ord, inv.Idx), "loop.entry", f, inv.Src, blockPos(li.header))
		}
	}
	// 2. havoc
	entryNext := vc.get(st, vc.nextComp())
	head := st.clone()
	mods := vc.loopMods(fr, li, st)
	var keys []string
	for k := range mods {
		keys = append(keys, k)
	}
	sort.Strings(keys)
	for _, k := range keys {
		m := mods[k]
		if m.whole || len(m.refs) == 0 {
			vc.havoc(head, m.comp)
			continue
		}
		cur := vc.get(head, m.comp)
		inner := arrayElemSort(vc.compSort[m.comp])
		for _, r := range m.refs {
			cur = fmt.Sprintf("(store %s %s %s)", cur, r, vc.freshConst("hv", inner))
		}
		vc.set(head, m.comp, cur)
	}
	if _, ok := mods[vc.nextComp()]; ok {
		vc.assume(head, fmt.Sprintf("(>= %s %s)", vc.get(head, vc.nextComp()), entryNext))
	}
	// user-declared frame of the loop: these locations keep their entry value (checked on every back edge)
	if ls != nil {
		li.preserved = nil
		for _, pe := range ls.Preserves {
			env := vc.specEnvCur(fr, st, fr.oldStOrSelf(st), locals)
			for _, l := range vc.locsOf(env, pe) {
				if l.Prior && strings.HasPrefix(vc.compSort[l.Comp], "(Array Int ") {
					entry := vc.get(st, l.Comp)
					hv := vc.freshConst("pres", vc.compSort[l.Comp])
					vc.emit(fmt.Sprintf("(assert (forall ((r Int)) (! (=> (<= r %s) (= (select %s r) (select %s r))) :pattern ((select %s r)))))", entryNext, hv, entry, hv))
					head.heap[l.Comp] = hv
					li.preserved = append(li.preserved, [3]string{l.Comp, "$prior:" + entryNext, entry})
					continue
				}
				if l.Ref == "" {
					head.heap[l.Comp] = vc.get(st, l.Comp)
				} else {
					vc.set(head, l.Comp, fmt.Sprintf("(store %s %s (select %s %s))", vc.get(head, l.Comp), l.Ref, vc.get(st, l.Comp), l.Ref))
				}
				li.preserved = append(li.preserved, [3]string{l.Comp, l.Ref, vc.get(head, l.Comp)})
			}
		}
	}
	// event counters only grow
	for _, k := range keys {
		if strings.HasPrefix(k, "ev.") {
			vc.assume(head, fmt.Sprintf("(>= %s %s)", vc.get(head, k), vc.get(st, k)))
		}
	}
	for _, ph := range phis {
		v := vc.freshVal(head, ph.Type(), "loop."+ph.Name())
		// a loop-carried slice that enters at offset 0 stays at offset 0 (checked on every back edge)
		if ev, ok := entryPhi[ph]; ok && v.Sl != nil && ev.Sl != nil && ev.Sl.Off == "0" {
			v.Sl.Off = "0"
			if li.zeroOff == nil {
				li.zeroOff = map[*ssa.Phi]bool{}
			}
			li.zeroOff[ph] = true
		}
		fr.env[ph] = v
	}
	// 3. automatic range-index facts
	for _, ph := range phis {
		if ph.Comment == "rangeindex" {
			if lim := rangeLimit(li.header, ph); lim != nil {
				l := vc.operand(fr, lim).T
				p := fr.env[ph].T
				vc.assume(head, fmt.Sprintf("(and (<= (- 1) %s) (or (= %s (- 1)) (< %s %s)))", p, p, p, l))
			}
		}
	}
	for _, ph := range phis {
		if ph.Comment == "rangeint.iter" {
			p := fr.env[ph].T
			vc.assume(head, fmt.Sprintf("(<= 0 %s)", p))
			if lim := rangeIntLimit(li, ph); lim != nil {
				vc.assume(head, fmt.Sprintf("(< %s %s)", p, vc.operand(fr, lim).T))
			}
		}
	}
	// 4. assume invariants
	locals = vc.loopLocals(fr, li, phis, func(ph *ssa.Phi) Val { return fr.env[ph] }, head)
	if iv, ok := locals[fmt.Sprintf("$idx%d", li.ord)]; ok {
		if fr.idxVals == nil {
			fr.idxVals = map[string]Val{}
		}
		fr.idxVals[fmt.Sprintf("$idx%d", li.ord)] = iv
	}
	if ls != nil {
		for _, inv := range ls.Invariants {
			env := vc.specEnvCur(fr, head, fr.oldStOrSelf(head), locals)
			vc.assume(head, vc.trBool(env, inv.E))
		}
	}
	return head
}

func rangeLimit(header *ssa.BasicBlock, ph *ssa.Phi) ssa.Value {
	for _, in := range header.Instrs {
		if bo, ok := in.(*ssa.BinOp); ok && bo.Op == token.LSS {
			if add, ok := bo.X.(*ssa.BinOp); ok && add.Op == token.ADD && add.X == ph {
				return bo.Y
			}
		}
	}
	return nil
}

// rangeIntLimit finds n of `for range n`: the latch compares iter+1 < n.
func rangeIntLimit(li *loopInfo, ph *ssa.Phi) ssa.Value {
	for b := range li.body {
		for _, in := range b.Instrs {
			if bo, ok := in.(*ssa.BinOp); ok && bo.Op == token.LSS {
				if add, ok := bo.X.(*ssa.BinOp); ok && add.Op == token.ADD && add.X == ph {
					if _, isConst := bo.Y.(*ssa.Const); isConst || bo.Y.Parent() == nil || !li.body[instrBlock(bo.Y)] {
						return bo.Y
					}
				}
			}
		}
	}
	return nil
}

func instrBlock(v ssa.Value) *ssa.BasicBlock {
	if in, ok := v.(ssa.Instruction); ok {
		return in.Block()
	}
	return nil
}

// loopLocals gives the spec-visible names of loop-carried variables.
func (vc *VC) loopLocals(fr *Frame, li *loopInfo, phis []*ssa.Phi, val func(*ssa.Phi) Val, st *State) map[string]Val {
	out := map[string]Val{}
	for _, ph := range phis {
		v := val(ph)
		if ph.Comment == "rangeindex" {
			iv := Val{T: fmt.Sprintf("(+ %s 1)", v.T), Typ: types.Typ[types.Int]}
			out["$idx"] = iv
			out[fmt.Sprintf("$idx%d", li.ord)] = iv
			continue
		}
		if ph.Comment == "rangeint.iter" {
			// range over an integer: the number of completed iterations
			iv := Val{T: v.T, Typ: types.Typ[types.Int]}
			out["$idx"] = iv
			out[fmt.Sprintf("$idx%d", li.ord)] = iv
			continue
		}
		if ph.Comment != "" {
			out[ph.Comment] = v
		}
	}
	return out
}

func (vc *VC) loopBackEdge(fr *Frame, li *loopInfo, from *ssa.BasicBlock, ex *blockExit, si int) {
	var ls *LoopSpec
	if fr.spec != nil {
		ls = fr.spec.Loops[li.ord]
	}
	// loop-carried slices assumed to stay at offset 0 must come back at (literal) offset 0
	for ph := range li.zeroOff {
		for i, p := range li.header.Preds {
			if p == from {
				if v := vc.operand(fr, ph.Edges[i]); v.Sl == nil || v.Sl.Off != "0" {
					vc.fatalf("loop-carried slice %s does not stay at offset 0", ph.Comment)
				}
			}
		}
	}
	if len(li.preserved) > 0 {
		fst := ex.st.clone()
		fst.pc = ex.conds[si]
		for i, p := range li.preserved {
			var goal string
			if strings.HasPrefix(p[1], "$prior:") {
				goal = fmt.Sprintf("(forall ((r Int)) (=> (<= r %s) (= (select %s r) (select %s r))))", strings.TrimPrefix(p[1], "$prior:"), vc.get(fst, p[0]), p[2])
			} else if p[1] == "" {
				goal = fmt.Sprintf("(= %s %s)", vc.get(fst, p[0]), p[2])
			} else {
				goal = fmt.Sprintf("(= (select %s %s) (select %s %s))", vc.get(fst, p[0]), p[1], p[2], p[1])
			}
			vc.oblige(fst, fmt.Sprintf("%s#loop%d.frame.%d", vc.fnNameOf(fr), li.ord, i+1), "loop.frame", goal, "the loop leaves this location unchanged: "+p[0], blockPos(li.header))
		}
	}
	if ls == nil || len(ls.Invariants) == 0 {
		return
	}
	st := ex.st.clone()
	st.pc = ex.conds[si]
	var phis []*ssa.Phi
	for _, in := range li.header.Instrs {
		if ph, ok := in.(*ssa.Phi); ok {
			phis = append(phis, ph)
		} else {
			break
		}
	}
	pi := -1
	for i, p := range li.header.Preds {
		if p == from {
			pi = i
		}
	}
	locals := vc.loopLocals(fr, li, phis, func(ph *ssa.Phi) Val { return vc.operand(fr, ph.Edges[pi]) }, st)
	fname := vc.fnNameOf(fr)
	for _, inv := range ls.Invariants {
		env := vc.specEnvCur(fr, st, fr.oldStOrSelf(st), locals)
		f := vc.trBool(env, inv.E)
		oname := fmt.Sprintf("%s#loop%d.preserve.%d", fname, li.ord, inv.Idx)
		if k := vc.ord(fr, oname); k > 0 { // several back edges (`continue`): later ones get an ordinal
			oname = fmt.Sprintf("%s.e%d", oname, k)
		}
		vc.oblige(st, oname, "loop.preserve", f, inv.Src, blockPos(li.header))
	}
}

type loopMod struct {
	comp  string
	refs  []string
	whole bool
}

// loopMods: components (and, where loop-invariant, the objects) written inside the loop.
func (vc *VC) loopMods(fr *Frame, li *loopInfo, st *State) map[string]*loopMod {
	out := map[string]*loopMod{}
	add := func(comp, ref string) {
		m := out[comp]
		if m == nil {
			m = &loopMod{comp: comp}
			out[comp] = m
		}
		if ref == "" {
			m.whole = true
			return
		}
		for _, r := range m.refs {
			if r == ref {
				return
			}
		}
		m.refs = append(m.refs, ref)
	}
	outside := func(v ssa.Value) bool {
		switch x := v.(type) {
		case *ssa.Parameter, *ssa.FreeVar, *ssa.Global, *ssa.Const:
			return true
		case ssa.Instruction:
			if x.Block() != nil && !li.body[x.Block()] {
				_, ok := fr.env[v]
				return ok
			}
		}
		return false
	}
	var addrMod func(addr ssa.Value)
	addrMod = func(addr ssa.Value) {
		switch a := addr.(type) {
		case *ssa.FieldAddr:
			root := a
			for {
				if inner, ok := root.X.(*ssa.FieldAddr); ok {
					root = inner
					continue
				}
				break
			}
			if ia, ok := root.X.(*ssa.IndexAddr); ok {
				addrMod(ia)
				return
			}
			if al, ok := root.X.(*ssa.Alloc); ok && li.body[al.Block()] {
				return
			}
			pt, ok := root.X.Type().Underlying().(*types.Pointer)
			if !ok {
				return
			}
			comp := vc.fieldComp(pt.Elem(), root.Field)
			if outside(root.X) {
				pv := vc.operand(fr, root.X)
				if pv.T != "" {
					add(comp, pv.T)
					return
				}
				if pv.Addr != nil && pv.Addr.Kind == aObj {
					add(vc.fieldComp(pv.Addr.Typ, pv.Addr.Path[0].Field), pv.Addr.Ref)
					return
				}
			}
			add(comp, "")
		case *ssa.IndexAddr:
			switch u := a.X.Type().Underlying().(type) {
			case *types.Slice:
				comp := vc.elemComp(u.Elem())
				if outside(a.X) {
					add(comp, vc.operand(fr, a.X).Sl.Arr)
				} else {
					add(comp, "")
				}
			case *types.Pointer:
				if al, ok := a.X.(*ssa.Alloc); ok && li.body[al.Block()] {
					return
				}
				if at, ok := u.Elem().Underlying().(*types.Array); ok {
					comp := vc.elemComp(at.Elem())
					if outside(a.X) {
						if pv := vc.operand(fr, a.X); pv.T != "" {
							add(comp, pv.T)
							return
						}
					}
					add(comp, "")
				}
			}
		case *ssa.Alloc:
			if li.body[a.Block()] {
				return
			}
			pv := vc.operand(fr, a)
			for _, l := range vc.objLocs(pv) {
				add(l.Comp, l.Ref)
			}
		case *ssa.Global:
			add(vc.globalComp(a), "")
		default:
			if pt, ok := addr.Type().Underlying().(*types.Pointer); ok {
				if outside(addr) {
					pv := vc.operand(fr, addr)
					for _, l := range vc.objLocs(pv) {
						add(l.Comp, l.Ref)
					}
					return
				}
				t := pt.Elem()
				if sT, ok := isStruct(t); ok {
					for i := 0; i < sT.NumFields(); i++ {
						add(vc.fieldComp(t, i), "")
					}
				} else {
					add(vc.cellComp(t), "")
				}
			}
		}
	}
	var blocks []*ssa.BasicBlock
	for b := range li.body {
		blocks = append(blocks, b)
	}
	sort.Slice(blocks, func(i, j int) bool { return blocks[i].Index < blocks[j].Index })
	for _, b := range blocks {
		for _, in := range b.Instrs {
			switch x := in.(type) {
			case *ssa.Store:
				addrMod(x.Addr)
			case *ssa.MapUpdate:
				mt := x.Map.Type().Underlying().(*types.Map)
				a, d := vc.mapComps(mt)
				ref := ""
				if outside(x.Map) {
					ref = vc.operand(fr, x.Map).T
				}
				add(a, ref)
				add(d, ref)
				add(vc.mapLenComp(), ref)
			case *ssa.Alloc, *ssa.MakeSlice, *ssa.MakeMap:
				add(vc.nextComp(), "")
			case *ssa.Defer:
				vc.fatalf("defer inside a loop (outside the subset)")
			case *ssa.Call:
				vc.loopCallMods(fr, li, x, add, outside)
			}
		}
	}
	return out
}

func (vc *VC) loopCallMods(fr *Frame, li *loopInfo, x *ssa.Call, add func(comp, ref string), outside func(ssa.Value) bool) {
	c := &x.Call
	add(vc.nextComp(), "")
	if b, ok := c.Value.(*ssa.Builtin); ok {
		switch b.Name() {
		case "append", "copy", "clear":
			if u, ok := c.Args[0].Type().Underlying().(*types.Slice); ok {
				comp := vc.elemComp(u.Elem())
				if b.Name() != "append" && outside(c.Args[0]) {
					add(comp, vc.operand(fr, c.Args[0]).Sl.Arr)
				} else {
					add(comp, "")
				}
			}
		case "delete":
			if mt, ok := c.Args[0].Type().Underlying().(*types.Map); ok {
				a, d := vc.mapComps(mt)
				add(a, "")
				add(d, "")
				add(vc.mapLenComp(), "")
			}
		}
		return
	}
	name := vc.calleeName(fr, c)
	if vc.eng.trackedEvents[name] {
		add(vc.eventComp(name), "")
	}
	// ghost variables assigned by the caller's own `at call` clauses for this callee
	if fr.spec != nil && name != "" {
		genv := &SpecEnv{vc: vc, fr: fr, pkg: fnPkg(fr.fn), vars: map[string]Val{}}
		for _, cs := range fr.spec.Calls {
			if cs.Callee != name {
				continue
			}
			for _, h := range cs.Havoc {
				// caller-side frame inside a loop: the whole component of the named location is loop-modified
				done := false
				if hc, ok := h.(*ECall); ok && len(hc.Args) == 1 {
					if id, ok := hc.Fun.(*EIdent); ok && id.Name == "elems" {
						if t, ok := vc.localTypes[exprName(hc.Args[0])]; ok {
							if sl, ok := t.Underlying().(*types.Slice); ok {
								add(vc.elemComp(sl.Elem()), "")
								done = true
							}
						}
					}
				}
				if !done {
					for comp := range vc.compSort {
						if !strings.HasPrefix(comp, "$") {
							add(comp, "")
						}
					}
				}
			}
			for _, gl := range [][]GhostSet{cs.Ghost, cs.GhostB} {
				for _, g := range gl {
					var gname string
					switch l := g.LHS.(type) {
					case *EIdent:
						gname = l.Name
					case *EIndex:
						gname = exprName(l.X)
					}
					if comp, gg := vc.ghostComp(genv, gname); gg != nil {
						add(comp, "")
					}
				}
			}
		}
	}
	var spec *FuncSpec
	var callee *ssa.Function
	if c.IsInvoke() {
		pkgPath := ""
		if n, ok := types.Unalias(c.Value.Type()).(*types.Named); ok && n.Obj().Pkg() != nil {
			pkgPath = n.Obj().Pkg().Path()
		}
		spec = vc.eng.specs.Funcs[specKey(pkgPath, name)]
	} else if callee = c.StaticCallee(); callee != nil {
		spec = vc.eng.lookupSpec(callee)
	} else if mc, ok := c.Value.(*ssa.MakeClosure); ok {
		callee = mc.Fn.(*ssa.Function)
	}
	if spec != nil && spec.HasMod {
		for _, m := range spec.Modifies {
			switch mx := m.(type) {
			case *ECall:
				if id, ok := mx.Fun.(*EIdent); ok && (id.Name == "called" || id.Name == "ev") {
					add(vc.eventComp(exprName(mx.Args[0])), "")
					continue
				}
			}
			// resolve the location with the ACTUAL argument types of this call (a generic callee's own parameter types
			// mention its type parameters); only the component matters here
			nf := len(vc.fatal)
			denv := &SpecEnv{vc: vc, fr: fr, pkg: vc.eng.pkgByPath(spec.Pkg), st: &State{pc: "true", heap: map[string]string{}}, vars: map[string]Val{}}
			denv.old = denv.st
			var pnames []string
			if callee != nil {
				origin := callee
				if callee.Origin() != nil {
					origin = callee.Origin()
				}
				for _, p := range origin.Params {
					pnames = append(pnames, p.Name())
				}
			} else {
				pnames = append([]string{"self"}, spec.Params...)
			}
			var actuals []ssa.Value
			if c.IsInvoke() {
				actuals = append(actuals, c.Value)
			}
			actuals = append(actuals, c.Args...)
			for i, a := range actuals {
				dv := Val{T: "0", Typ: a.Type()}
				if _, isSl := a.Type().Underlying().(*types.Slice); isSl {
					dv = Val{Sl: &SliceVal{"0", "0", "0", "0"}, Typ: a.Type()}
				}
				if i < len(pnames) && pnames[i] != "" {
					denv.vars[pnames[i]] = dv
				}
				denv.vars[fmt.Sprintf("arg%d", i)] = dv
			}
			locs := vc.locsOf(denv, m)
			vc.fatal = vc.fatal[:nf]
			if len(locs) > 0 {
				for _, l := range locs {
					add(l.Comp, "")
				}
				continue
			}
			add(vc.coarseComp(spec, m), "")
		}
		return
	}
	if callee != nil {
		target := callee
		if callee.Origin() != nil {
			target = callee.Origin()
		}
		ms := vc.eng.modsetOf(target)
		for _, mk := range ms.Comps {
			add(mk(vc), "")
		}
		for ev := range ms.Events {
			if vc.eng.trackedEvents[ev] {
				add(vc.eventComp(ev), "")
			}
		}
		if ms.Unknown {
			for comp := range vc.compSort {
				if !strings.HasPrefix(comp, "$") {
					add(comp, "")
				}
			}
		}
	}
}

// ---------------------------------------------------------------- frame check

func (vc *VC) frameCheck(fr *Frame, exit *State) {
	env := vc.specEnv(fr, fr.oldSt, fr.oldSt, nil)
	allowed := map[string][]string{} // comp -> refs ("" = whole)
	ranged := map[string][]Loc{}       // comp -> element-range locations
	for _, m := range vc.spec.Modifies {
		for _, l := range vc.locsOf(env, m) {
			if l.Lo != "" {
				ranged[l.Comp] = append(ranged[l.Comp], l)
				if _, ok := allowed[l.Comp]; !ok {
					allowed[l.Comp] = nil
				}
				continue
			}
			allowed[l.Comp] = append(allowed[l.Comp], l.Ref)
		}
	}
	next0 := vc.initOf(vc.nextComp())
	var comps []string
	for c := range exit.heap {
		comps = append(comps, c)
	}
	sort.Strings(comps)
	for _, c := range comps {
		if strings.HasPrefix(c, "$") {
			continue
		}
		cur := exit.heap[c]
		ini := vc.initOf(c)
		if cur == ini {
			continue
		}
		refs, ok := allowed[c]
		whole := false
		for _, r := range refs {
			if r == "" {
				whole = true
			}
		}
		if ok && whole {
			continue
		}
		sort := vc.compSort[c]
		var goal string
		if rl := ranged[c]; len(rl) > 0 {
			var ex []string
			for _, r := range refs {
				ex = append(ex, fmt.Sprintf("(not (= r %s))", r))
			}
			for _, l := range rl {
				ex = append(ex, fmt.Sprintf("(not (and (= r %s) (<= %s k) (< k %s)))", l.Ref, l.Lo, l.Hi))
			}
			goal = fmt.Sprintf("(forall ((r Int) (k Int)) (=> (and (<= r %s) %s) (= (select (select %s r) k) (select (select %s r) k))))", next0, strings.Join(ex, " "), cur, ini)
		} else if strings.HasPrefix(sort, "(Array Int ") {
			var ex []string
			for _, r := range refs {
				ex = append(ex, fmt.Sprintf("(not (= r %s))", r))
			}
			cond := fmt.Sprintf("(and (<= r %s) %s)", next0, strings.Join(append(ex, "true"), " "))
			goal = fmt.Sprintf("(forall ((r Int)) (=> %s (= (select %s r) (select %s r))))", cond, cur, ini)
		} else if strings.HasPrefix(sort, "(Array ") && len(refs) > 0 {
			parts := splitSexp(sort[1 : len(sort)-1])
			var ex []string
			for _, r := range refs {
				ex = append(ex, fmt.Sprintf("(not (= r %s))", r))
			}
			goal = fmt.Sprintf("(forall ((r %s)) (=> (and %s true) (= (select %s r) (select %s r))))", parts[1], strings.Join(ex, " "), cur, ini)
		} else {
			goal = fmt.Sprintf("(= %s %s)", cur, ini)
		}
		vc.obligeNoAssume(exit, fmt.Sprintf("%s#frame.%s", vc.fnName(), c), "frame", goal, "only the locations named in modifies may change: "+c, fr.fn.Pos())
	}
}

// ---------------------------------------------------------------- intrinsics (library functions with built-in semantics)

// intrinsic models encoding/binary little-endian codecs exactly (byte stores / byte sums), so that
// frame reasoning along store chains works. These are part of the trusted base.
func (vc *VC) intrinsic(fr *Frame, instr ssa.Instruction, callee *ssa.Function, args []Val, st *State) (Val, bool) {
	full := callee.String()
	var n int
	put := false
	switch full {
	case "(encoding/binary.littleEndian).PutUint32":
		n, put = 4, true
	case "(encoding/binary.littleEndian).PutUint64":
		n, put = 8, true
	case "(encoding/binary.littleEndian).PutUint16":
		n, put = 2, true
	case "(encoding/binary.littleEndian).Uint32":
		n = 4
	case "(encoding/binary.littleEndian).Uint64":
		n = 8
	case "(encoding/binary.littleEndian).Uint16":
		n = 2
	case "sort.Search":
		return vc.sortSearch(fr, instr, args, st)
	case "sort.Slice", "sort.SliceStable":
		return vc.sortSlice(fr, instr, args, st)
	default:
		// cmp.Compare[T]: the Go specification of the three-way comparison (for floats: NaN sorts first and equals NaN)
		if strings.HasPrefix(full, "cmp.Compare[") && len(args) == 2 {
			vc.uses["intrinsic cmp.Compare (Go specification incl. NaN ordering)"] = true
			a, b := vc.valTerm(args[0]), vc.valTerm(args[1])
			rt := callee.Signature.Results().At(0).Type()
			if bt, ok := args[0].Typ.Underlying().(*types.Basic); ok {
				switch {
				case bt.Info()&types.IsFloat != 0:
					return Val{T: fmt.Sprintf("(f.cmp %s %s)", a, b), Typ: rt}, true
				case bt.Info()&types.IsString != 0:
					return Val{T: fmt.Sprintf("(ite (str.< %s %s) (- 1) (ite (str.< %s %s) 1 0))", a, b, b, a), Typ: rt}, true
				case bt.Info()&types.IsInteger != 0:
					return Val{T: fmt.Sprintf("(ite (< %s %s) (- 1) (ite (> %s %s) 1 0))", a, b, a, b), Typ: rt}, true
				}
			}
		}
		return Val{}, false
	}
	vc.uses["intrinsic "+full] = true
	b := args[1]
	if b.Sl == nil {
		return Val{}, false
	}
	if vc.safe(fr) {
		vc.oblige(st, fmt.Sprintf("%s#safe.index.%d", vc.fnName(), vc.ord(fr, "index")), "safe", fmt.Sprintf("(<= %d %s)", n, b.Sl.Len), fmt.Sprintf("binary.LittleEndian needs %d bytes", n), instr.Pos())
	}
	comp := vc.elemComp(types.Typ[types.Uint8])
	if put {
		v := args[2].T
		row := fmt.Sprintf("(select %s %s)", vc.get(st, comp), b.Sl.Arr)
		div := "1"
		for i := 0; i < n; i++ {
			var byteT string
			if i == 0 {
				byteT = fmt.Sprintf("(mod %s 256)", v)
			} else {
				byteT = fmt.Sprintf("(mod (div %s %s) 256)", v, div)
			}
			row = fmt.Sprintf("(store %s %s %s)", row, addT(b.Sl.Off, fmt.Sprintf("%d", i)), byteT)
			div = mul256(div)
		}
		vc.set(st, comp, fmt.Sprintf("(store %s %s %s)", vc.get(st, comp), b.Sl.Arr, row))
		// redundant arithmetic fact (the little-endian bytes of v sum back to v); it is a theorem of
		// integer arithmetic, stated here so the solver need not rediscover it under quantifiers
		var sum []string
		d2, m2 := "1", "1"
		for i := 0; i < n; i++ {
			bt := fmt.Sprintf("(mod (div %s %s) 256)", v, d2)
			if i == 0 {
				bt = fmt.Sprintf("(mod %s 256)", v)
				sum = append(sum, bt)
			} else {
				sum = append(sum, fmt.Sprintf("(* %s %s)", m2, bt))
			}
			d2 = mul256(d2)
			m2 = mul256(m2)
		}
		vc.emit(fmt.Sprintf("(assert (=> (and (<= 0 %s) (< %s %s)) (= (+ %s) %s)))", v, v, d2, strings.Join(sum, " "), v))
		return Val{}, true
	}
	row := fmt.Sprintf("(select %s %s)", vc.get(st, comp), b.Sl.Arr)
	var parts []string
	mulT := "1"
	for i := 0; i < n; i++ {
		e := fmt.Sprintf("(select %s %s)", row, addT(b.Sl.Off, fmt.Sprintf("%d", i)))
		if i == 0 {
			parts = append(parts, e)
		} else {
			parts = append(parts, fmt.Sprintf("(* %s %s)", mulT, e))
		}
		mulT = mul256(mulT)
	}
	res := Val{T: vc.define("le", "Int", "(+ "+strings.Join(parts, " ")+")"), Typ: callee.Signature.Results().At(0).Type()}
	// bytes are in 0..255 (heap invariant of []byte)
	for i := 0; i < n; i++ {
		e := fmt.Sprintf("(select %s %s)", row, addT(b.Sl.Off, fmt.Sprintf("%d", i)))
		vc.assume(st, fmt.Sprintf("(and (<= 0 %s) (<= %s 255))", e, e))
	}
	return res, true
}

func mul256(s string) string {
	// decimal string * 256 using big arithmetic via fmt
	var x, y uint64
	fmt.Sscanf(s, "%d", &x)
	y = x * 256
	if x != 0 && y/256 != x {
		return "18446744073709551616"
	}
	return fmt.Sprintf("%d", y)
}

// offZeroClause recognises `off(retK) == 0` / `off(ret) == 0`.
func offZeroClause(e Expr) (int, bool) {
	b, ok := e.(*EBin)
	if !ok || b.Op != "==" {
		return 0, false
	}
	n, ok := b.R.(*ENum)
	if !ok || n.V != "0" {
		return 0, false
	}
	c, ok := b.L.(*ECall)
	if !ok || len(c.Args) != 1 {
		return 0, false
	}
	if id, ok := c.Fun.(*EIdent); !ok || id.Name != "off" {
		return 0, false
	}
	a, ok := c.Args[0].(*EIdent)
	if !ok {
		return 0, false
	}
	if a.Name == "ret" {
		return 0, true
	}
	if strings.HasPrefix(a.Name, "ret") {
		k := 0
		if _, err := fmt.Sscanf(a.Name, "ret%d", &k); err == nil {
			return k, true
		}
	}
	return 0, false
}

// inSubset reports whether a function body only uses instructions the executor models (used to decide
// between inlining a helper and treating it as an opaque call).
func inSubset(fn *ssa.Function) bool {
	for _, b := range fn.Blocks {
		for _, in := range b.Instrs {
			switch x := in.(type) {
			case *ssa.Go, *ssa.Select, *ssa.Send, *ssa.MakeChan, *ssa.Range, *ssa.Next, *ssa.SliceToArrayPointer, *ssa.MultiConvert:
				return false
			case *ssa.UnOp:
				if x.Op == token.ARROW {
					return false
				}
			case *ssa.Defer:
				return false
			}
		}
	}
	return true
}

// sortSearch models sort.Search(n, f) for a known closure f without assuming f monotone:
// the result r satisfies 0 <= r <= n, (r == 0 or !f(r-1)) and (r == n or f(r)); f is only ever applied
// to indices in [0,n), and its own safety obligations are checked for an arbitrary such index.
// (With a sorted slice and a transitive comparison the callers derive the usual lower-bound meaning.)
func (vc *VC) sortSearch(fr *Frame, instr ssa.Instruction, args []Val, st *State) (Val, bool) {
	if len(args) != 2 || args[1].Clo == nil {
		return Val{}, false
	}
	vc.uses["intrinsic sort.Search"] = true
	n := args[0].T
	clo := args[1].Clo
	intT := types.Typ[types.Int]
	apply := func(idx string, cond string, label string) string {
		br := st.clone()
		vc.assumeInto(br, st.pc, cond)
		res := vc.inline(fr, instr, clo.Fn, nil, "sort.Search$f", []Val{{T: idx, Typ: intT}}, clo.Bindings, types.Typ[types.Bool], br)
		b := vc.freshConst(label, "Bool")
		vc.emit(fmt.Sprintf("(assert (=> %s (= %s %s)))", br.pc, b, res.T))
		// the application itself neither panics (its safety obligations were generated above) nor is pruned:
		// the heap well-formedness facts assumed while executing f hold on the main path as well
		vc.assume(st, fmt.Sprintf("(=> %s %s)", cond, br.pc))
		return b
	}
	if vc.safe(fr) {
		vc.oblige(st, fmt.Sprintf("%s#safe.make.%d", vc.fnName(), vc.ord(fr, "make")), "safe", fmt.Sprintf("(<= 0 %s)", n), "sort.Search: negative n", instr.Pos())
	}
	r := vc.freshConst("search", "Int")
	vc.assume(st, fmt.Sprintf("(and (<= 0 %s) (<= %s %s))", r, r, n))
	// safety of f on an arbitrary index of [0,n)
	k := vc.freshConst("search.k", "Int")
	apply(k, fmt.Sprintf("(and (<= 0 %s) (< %s %s))", k, k, n), "search.fk")
	below := apply(fmt.Sprintf("(- %s 1)", r), fmt.Sprintf("(> %s 0)", r), "search.below")
	at := apply(r, fmt.Sprintf("(< %s %s)", r, n), "search.at")
	vc.assume(st, fmt.Sprintf("(and (=> (> %s 0) (not %s)) (=> (< %s %s) %s))", r, below, r, n, at))
	return Val{T: r, Typ: intT}, true
}

// sortSlice models sort.Slice(x, less): the elements of the slice are permuted (nothing about the resulting order
// is promised, since `less` is arbitrary code); everything outside the slice is unchanged.
func (vc *VC) sortSlice(fr *Frame, instr ssa.Instruction, args []Val, st *State) (Val, bool) {
	if len(args) < 1 || args[0].Boxed == nil || args[0].Boxed.Sl == nil {
		return Val{}, false
	}
	vc.uses["intrinsic sort.Slice (permutation only)"] = true
	s := args[0].Boxed.Sl
	el := args[0].Boxed.Typ.Underlying().(*types.Slice).Elem()
	comp := vc.elemComp(el)
	es := vc.sortOf(el)
	old := fmt.Sprintf("(select %s %s)", vc.get(st, comp), s.Arr)
	row := vc.freshConst("sorted", fmt.Sprintf("(Array Int %s)", es))
	vc.n++
	perm := fmt.Sprintf("perm!%d", vc.n)
	inv := fmt.Sprintf("perminv!%d", vc.n)
	vc.emit(fmt.Sprintf("(declare-fun %s (Int) Int)", perm))
	vc.emit(fmt.Sprintf("(declare-fun %s (Int) Int)", inv))
	lo, hi := s.Off, addT(s.Off, s.Len)
	vc.emit(fmt.Sprintf("(assert (forall ((j Int)) (! (=> (and (<= %s j) (< j %s)) (and (<= %s (%s j)) (< (%s j) %s) (= (select %s j) (select %s (%s j))) (= (%s (%s j)) j))) :pattern ((select %s j)))))",
		lo, hi, lo, perm, perm, hi, row, old, perm, inv, perm, row))
	vc.emit(fmt.Sprintf("(assert (forall ((i Int)) (! (=> (and (<= %s i) (< i %s)) (and (<= %s (%s i)) (< (%s i) %s) (= (%s (%s i)) i))) :pattern ((%s i)))))",
		lo, hi, lo, inv, inv, hi, perm, inv, inv))
	vc.emit(fmt.Sprintf("(assert (forall ((j Int)) (! (=> (or (< j %s) (>= j %s)) (= (select %s j) (select %s j))) :pattern ((select %s j)))))", lo, hi, row, old, row))
	vc.set(st, comp, fmt.Sprintf("(store %s %s %s)", vc.get(st, comp), s.Arr, row))
	return Val{}, true
}
