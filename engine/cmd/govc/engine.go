package main

import (
	"fmt"
	"go/token"
	"go/types"
	"os"
	"sort"
	"strings"
	"sync"

	"golang.org/x/tools/go/packages"
	"golang.org/x/tools/go/ssa"
	"golang.org/x/tools/go/ssa/ssautil"
)

type Engine struct {
	repo          string
	verif         string
	fset          *token.FileSet
	prog          *ssa.Program
	pkgs          []*packages.Package
	spkgs         map[string]*ssa.Package // by path
	tpkgs         map[string]*types.Package
	specs         *SpecDB
	modsets       map[*ssa.Function]*ModSet
	trackedEvents map[string]bool
	recCache      map[*ssa.Function]bool
	repoMods      []string // module path prefixes considered "in repo"
	funcIndex     map[string]*ssa.Function
	mu            sync.Mutex // guards modsets, recCache, funcIndex (VCs are generated concurrently)
}

func NewEngine(repo, verif string, patterns []string) (*Engine, error) {
	eng := &Engine{repo: repo, verif: verif, spkgs: map[string]*ssa.Package{}, tpkgs: map[string]*types.Package{}, modsets: map[*ssa.Function]*ModSet{},
		trackedEvents: map[string]bool{}, recCache: map[*ssa.Function]bool{}, funcIndex: map[string]*ssa.Function{}}
	specs, err := LoadAllSpecs(repo, verif, "")
	if err != nil {
		return nil, err
	}
	eng.specs = specs
	eng.collectEvents()
	// group patterns by module directory (the repo is a go.work workspace, patterns are import paths)
	cfg := &packages.Config{Mode: packages.LoadAllSyntax, Dir: repo, BuildFlags: []string{"-tags=verif"}, Env: append(os.Environ(), "GOFLAGS=", "GOPROXY=off")}
	pkgs, err := packages.Load(cfg, patterns...)
	if err != nil {
		return nil, err
	}
	var errs []string
	packages.Visit(pkgs, nil, func(p *packages.Package) {
		for _, e := range p.Errors {
			errs = append(errs, e.Error())
		}
	})
	if len(errs) > 0 {
		return nil, fmt.Errorf("package load errors (the tree does not compile?):\n%s", strings.Join(errs, "\n"))
	}
	eng.pkgs = pkgs
	if len(pkgs) > 0 {
		eng.fset = pkgs[0].Fset
	}
	prog, _ := ssautil.AllPackages(pkgs, ssa.GlobalDebug)
	prog.Build()
	eng.prog = prog
	for _, p := range prog.AllPackages() {
		eng.spkgs[p.Pkg.Path()] = p
		eng.tpkgs[p.Pkg.Path()] = p.Pkg
	}
	eng.repoMods = []string{"github.com/sharedcode/sop"}
	return eng, nil
}

func (eng *Engine) inRepo(path string) bool {
	for _, m := range eng.repoMods {
		if path == m || strings.HasPrefix(path, m+"/") {
			return true
		}
	}
	return false
}

func (eng *Engine) pkgByPath(path string) *types.Package { return eng.tpkgs[path] }

// findPackage resolves a package name as seen from pkg (its imports), falling back to any loaded package with that name.
func (eng *Engine) findPackage(from *types.Package, name string) *types.Package {
	if from != nil {
		if from.Name() == name {
			return from
		}
		for _, imp := range from.Imports() {
			if imp.Name() == name {
				return imp
			}
		}
	}
	var cands []string
	for p, tp := range eng.tpkgs {
		if tp.Name() == name {
			cands = append(cands, p)
		}
	}
	sort.Strings(cands)
	// prefer repository packages
	for _, c := range cands {
		if eng.inRepo(c) {
			return eng.tpkgs[c]
		}
	}
	if len(cands) > 0 {
		return eng.tpkgs[cands[0]]
	}
	return nil
}

func (eng *Engine) collectEvents() {
	var walk func(e Expr)
	walk = func(e Expr) {
		switch x := e.(type) {
		case *ECall:
			if id, ok := x.Fun.(*EIdent); ok && (id.Name == "called" || id.Name == "ncalls" || id.Name == "ev") && len(x.Args) == 1 {
				eng.trackedEvents[exprName(x.Args[0])] = true
				return
			}
			walk(x.Fun)
			for _, a := range x.Args {
				walk(a)
			}
		case *EBin:
			walk(x.L)
			walk(x.R)
		case *EUn:
			walk(x.X)
		case *EParen:
			walk(x.X)
		case *ECond:
			walk(x.C)
			walk(x.A)
			walk(x.B)
		case *EQuant:
			if x.Lo != nil {
				walk(x.Lo)
				walk(x.Hi)
			}
			walk(x.Body)
		case *ESel:
			walk(x.X)
		case *EIndex:
			walk(x.X)
			walk(x.I)
		case *ESlice:
			walk(x.X)
			if x.Lo != nil {
				walk(x.Lo)
			}
			if x.Hi != nil {
				walk(x.Hi)
			}
		}
	}
	for _, f := range eng.specs.Funcs {
		for _, c := range f.Requires {
			walk(c.E)
		}
		for _, c := range f.Ensures {
			walk(c.E)
		}
		for _, m := range f.Modifies {
			walk(m)
		}
		for _, l := range f.Loops {
			for _, c := range l.Invariants {
				walk(c.E)
			}
			for _, c := range l.Exits {
				walk(c.E)
			}
		}
		for _, cs := range f.Calls {
			for _, c := range cs.Asserts {
				walk(c.E)
			}
			for _, c := range cs.AssertsB {
				walk(c.E)
			}
			for _, g := range cs.Ghost {
				walk(g.RHS)
			}
			for _, g := range cs.GhostB {
				walk(g.RHS)
			}
		}
	}
	for _, sf := range eng.specs.Specs {
		if sf.Body != nil {
			walk(sf.Body)
		}
	}
}

// findFunc finds the SSA function a contract is about.
func (eng *Engine) findFunc(spec *FuncSpec) *ssa.Function {
	eng.mu.Lock()
	defer eng.mu.Unlock()
	key := specKey(spec.Pkg, spec.Name)
	if f, ok := eng.funcIndex[key]; ok {
		return f
	}
	sp := eng.spkgs[spec.Pkg]
	if sp == nil {
		return nil
	}
	var found *ssa.Function
	check := func(f *ssa.Function) {
		if f == nil || found != nil {
			return
		}
		if eng.specName(f) == spec.Name {
			found = f
			return
		}
	}
	var visit func(f *ssa.Function)
	visit = func(f *ssa.Function) {
		check(f)
		if f != nil {
			for _, af := range f.AnonFuncs {
				visit(af)
			}
		}
	}
	for _, m := range sp.Members {
		switch x := m.(type) {
		case *ssa.Function:
			visit(x)
		case *ssa.Type:
			t := x.Type()
			for _, tt := range []types.Type{t, types.NewPointer(t)} {
				ms := eng.prog.MethodSets.MethodSet(tt)
				for i := 0; i < ms.Len(); i++ {
					fn := eng.prog.MethodValue(ms.At(i))
					if fn != nil && fn.Synthetic == "" {
						visit(fn)
					} else if fn != nil && fn.Origin() != nil {
						visit(fn.Origin())
					}
				}
			}
			// generic named types: methods are reached through the declared methods
			if n, ok := t.(*types.Named); ok {
				for i := 0; i < n.NumMethods(); i++ {
					if fn := eng.prog.FuncValue(n.Method(i)); fn != nil {
						visit(fn)
					}
				}
			}
		}
	}
	eng.funcIndex[key] = found
	return found
}

func (eng *Engine) isRecursive(fn *ssa.Function) bool {
	eng.mu.Lock()
	defer eng.mu.Unlock()
	if r, ok := eng.recCache[fn]; ok {
		return r
	}
	eng.recCache[fn] = false
	seen := map[*ssa.Function]bool{}
	var reach func(f *ssa.Function, depth int) bool
	reach = func(f *ssa.Function, depth int) bool {
		if depth > 60 {
			return true
		}
		for _, b := range f.Blocks {
			for _, in := range b.Instrs {
				if c, ok := in.(ssa.CallInstruction); ok {
					if cal := c.Common().StaticCallee(); cal != nil {
						if cal.Origin() != nil && len(cal.Blocks) == 0 {
							cal = cal.Origin()
						}
						if cal == fn {
							return true
						}
						if !seen[cal] && fnPkg(cal) != nil && eng.inRepo(fnPkg(cal).Path()) {
							seen[cal] = true
							if reach(cal, depth+1) {
								return true
							}
						}
					}
				}
			}
		}
		return false
	}
	r := reach(fn, 0)
	eng.recCache[fn] = r
	return r
}
