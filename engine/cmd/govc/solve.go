package main

import (
	"bytes"
	"context"
	"fmt"
	"os"
	"os/exec"
	"path/filepath"
	"strings"
	"sync"
	"time"
)

type solverDef struct {
	name string
	args func(file string, timeoutS int) []string
}

var solvers = []solverDef{
	{"z3-new", func(f string, t int) []string { return []string{"z3-new", fmt.Sprintf("-T:%d", t), f} }},
	{"z3", func(f string, t int) []string { return []string{"z3", fmt.Sprintf("-T:%d", t), f} }},
	{"cvc5", func(f string, t int) []string {
		return []string{"cvc5", fmt.Sprintf("--tlimit=%d", t*1000), "--strings-exp", f}
	}},
}

type solveResult struct {
	result string // unsat sat unknown error
	solver string
	out    string
	secs   float64
	all    map[string]string
	times  map[string]float64
}

// runSolvers races the solvers on one query; first definitive answer wins.
func runSolvers(query, file string, timeoutS int, waitAll bool) solveResult {
	if err := os.WriteFile(file, []byte(query), 0o644); err != nil {
		return solveResult{result: "error", out: err.Error()}
	}
	ctx, cancel := context.WithCancel(context.Background())
	defer cancel()
	type one struct {
		solver, res, out string
		secs             float64
	}
	ch := make(chan one, len(solvers))
	for _, s := range solvers {
		s := s
		go func() {
			t0 := time.Now()
			a := s.args(file, timeoutS)
			cmd := exec.CommandContext(ctx, a[0], a[1:]...)
			var buf bytes.Buffer
			cmd.Stdout = &buf
			cmd.Stderr = &buf
			done := make(chan struct{})
			go func() { cmd.Run(); close(done) }()
			select {
			case <-done:
			case <-time.After(time.Duration(timeoutS+5) * time.Second):
				if cmd.Process != nil {
					cmd.Process.Kill()
				}
				<-done
			}
			out := buf.String()
			first := strings.TrimSpace(strings.SplitN(out, "\n", 2)[0])
			res := "unknown"
			switch first {
			case "unsat", "sat":
				res = first
			case "unknown", "timeout":
				res = "unknown"
			default:
				if strings.Contains(first, "error") || strings.Contains(first, "Error") {
					res = "error"
				}
			}
			ch <- one{s.name, res, out, time.Since(t0).Seconds()}
		}()
	}
	r := solveResult{result: "unknown", all: map[string]string{}, times: map[string]float64{}}
	for i := 0; i < len(solvers); i++ {
		o := <-ch
		r.all[o.solver] = o.res
		r.times[o.solver] = o.secs
		if (o.res == "unsat" || o.res == "sat") && (r.result != "unsat" && r.result != "sat") {
			r.result, r.solver, r.out, r.secs = o.res, o.solver, o.out, o.secs
			if !waitAll {
				cancel()
				// drain
				go func(n int) {
					for j := 0; j < n; j++ {
						<-ch
					}
				}(len(solvers) - i - 1)
				return r
			}
		} else if r.out == "" || (r.result == "unknown" && o.res == "error" && r.solver == "") {
			if r.result != "unsat" && r.result != "sat" {
				r.out = o.out
				r.secs = o.secs
				if r.solver == "" {
					r.solver = o.solver
				}
			}
		}
	}
	if r.result == "unknown" {
		allErr := true
		for _, v := range r.all {
			if v != "error" {
				allErr = false
			}
		}
		if allErr {
			r.result = "error"
		}
	}
	return r
}

// solveAll discharges obligations in parallel.
func solveAll(items []*solveItem, tmpDir string, timeoutS, workers int, waitAll bool) {
	var wg sync.WaitGroup
	ch := make(chan *solveItem)
	for w := 0; w < workers; w++ {
		wg.Add(1)
		go func(w int) {
			defer wg.Done()
			for it := range ch {
				file := filepath.Join(tmpDir, fmt.Sprintf("q%d_%d.smt2", w, it.idx))
				q := it.vc.query(it.o)
				it.o.Size = len(q)
				tmo := timeoutS
				if it.o.Vacuity && tmo > 8 {
					tmo = 8 // reachability covers are expected sat quickly; an undecided cover is reported, not waited for
				}
				r := runSolvers(q, file, tmo, waitAll)
				it.o.Result, it.o.Solver, it.o.TimeS = r.result, r.solver, r.secs
				it.all = r.all
				it.times = r.times
				if r.result == "sat" || r.result == "error" || r.result == "unknown" {
					it.o.Model = r.out
				}
				if r.result == "unknown" && len(it.o.Parts) > 1 {
					// undecided conjunction over the returns: decide each return on its own
					allUnsat := true
					total := r.secs
					for _, part := range it.o.Parts {
						po := *it.o
						po.Pc, po.Goal, po.Parts = part[0], part[1], nil
						pr := runSolvers(it.vc.query(&po), file, timeoutS, false)
						total += pr.secs
						if os.Getenv("GOVC_DBG") != "" {
							fmt.Fprintf(os.Stderr, "DBG part %s pc=%s -> %s %s %.1fs\n", it.o.Name, part[0], pr.result, pr.solver, pr.secs)
							os.WriteFile(fmt.Sprintf("/tmp/part_%s.smt2", part[0]), []byte(it.vc.query(&po)), 0o644)
						}
						if pr.result != "unsat" {
							allUnsat = false
							it.o.Result, it.o.Solver, it.o.Model = pr.result, pr.solver, pr.out
							break
						}
						it.o.Solver = pr.solver
					}
					it.o.TimeS = total
					if allUnsat {
						it.o.Result, it.o.Model, it.o.Split = "unsat", "", true
					}
				}
				os.Remove(file)
			}
		}(w)
	}
	for _, it := range items {
		ch <- it
	}
	close(ch)
	wg.Wait()
}

type solveItem struct {
	vc    *VC
	o     *Obligation
	idx   int
	all   map[string]string
	times map[string]float64
}
