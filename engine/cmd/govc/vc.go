package main

import (
	"fmt"
	"os"
	"go/token"
	"go/types"
	"regexp"
	"sort"
	"strconv"
	"strings"

	"golang.org/x/tools/go/ssa"
)

// ---------------------------------------------------------------- values

// Val is a symbolic Go value.
type Val struct {
	T      string     // SMT term (scalars, structs, pointers, interfaces, strings, maps)
	Sl     *SliceVal  // slices
	Addr   *Addr      // statically known address (FieldAddr/IndexAddr/Alloc/Global)
	Tuple  []Val      // multi-result
	Clo    *Closure   // function values with known target
	Global string     // value loaded from this global (pkgpath.Name), for calls through func vars
	FnField string    // function value loaded from this struct field ("pkgpath::T.f"), for fieldfn contracts
	Boxed  *Val       // interface value made from this (statically known) value: used by library intrinsics
	Typ    types.Type // Go type (may be nil for spec-only values)
	Sort   string     // SMT sort for spec-only values (ghost maps, spec ints)
}

type SliceVal struct{ Arr, Off, Len, Cap string }

type Closure struct {
	Fn       *ssa.Function
	Bindings []Val
}

const (
	aObj    = iota // struct object in field heaps: Ref = object ref
	aRow           // row of element heap (arrays, slice backing): Ref = row ref
	aCell          // cell in P_<sort>: Ref = cell ref
	aGlobal        // global variable: Comp is the component
)

type Step struct {
	IsIndex bool
	Field   int
	Index   string
}

type Addr struct {
	Kind int
	Ref  string
	Typ  types.Type // type of the pointee at the root (struct type for aObj; array/elem container for aRow)
	Elem types.Type // aRow: element type
	Comp string     // aGlobal
	GKey string     // aGlobal: pkgpath.Name
	Path []Step
}

// ---------------------------------------------------------------- state

type State struct {
	pc     string
	heap   map[string]string
	dead   bool
	locals map[string]Val // source-level local variables (from DebugRef / named phis), flow-sensitive
}

func (s *State) clone() *State {
	n := &State{pc: s.pc, heap: make(map[string]string, len(s.heap)), dead: s.dead}
	for k, v := range s.heap {
		n.heap[k] = v
	}
	if s.locals != nil {
		n.locals = make(map[string]Val, len(s.locals))
		for k, v := range s.locals {
			n.locals[k] = v
		}
	}
	return n
}

func (s *State) setLocal(name string, v Val) {
	if s.locals == nil {
		s.locals = map[string]Val{}
	}
	s.locals[name] = v
}

func sameVal(a, b Val) bool {
	if (a.Sl == nil) != (b.Sl == nil) {
		return false
	}
	if a.Sl != nil {
		return *a.Sl == *b.Sl
	}
	if a.Sort == "addr" || b.Sort == "addr" {
		return a.Sort == b.Sort && a.Addr != nil && b.Addr != nil && a.Addr.Ref == b.Addr.Ref && a.Addr.Kind == b.Addr.Kind && a.Addr.Comp == b.Addr.Comp && len(a.Addr.Path) == len(b.Addr.Path)
	}
	return a.T == b.T && len(a.Tuple) == len(b.Tuple)
}

// ---------------------------------------------------------------- obligations

type Obligation struct {
	Retried bool // undecided in the first pass, tried again with a larger budget
	Name    string
	Fn      string
	Pc      string
	Goal    string
	NLines  int
	Pos     token.Position
	Src     string // clause source text
	Kind    string // ensures requires-at-call loop.entry loop.preserve safe frame assert lemma
	Tag     string
	Result  string // unsat sat unknown timeout error
	Solver  string
	TimeS   float64
	Model   string
	Size    int
	Vacuity bool // cover query: expected sat
	// Parts: the goal is the conjunction of (Pc_i => Goal_i) (one per return of the function); when the
	// whole conjunction is not decided the parts are tried one by one (each under its own return's path condition).
	Parts [][2]string
	Split bool // decided through its parts
}

// VC is the verification context of one function (or lemma).
type VC struct {
	eng       *Engine
	fn        *ssa.Function
	spec      *FuncSpec
	lines     []string
	declared  map[string]bool
	n         int
	obls      []*Obligation
	compSort  map[string]string
	init      map[string]string
	notes     []string          // assumptions recorded while generating
	fatal     []string          // reasons the function is outside the subset
	opaque    map[string]bool   // opaque calls seen
	inlined   map[string]bool
	callOrd   map[string]int    // per function activation at top level
	depth     int
	tagNext   int
	typeTags  map[string]int
	strLits   map[string]bool
	nextC     string // name of allocation counter component
	uses      map[string]bool // contracts used (assumed) at call sites
	sliceUFs  [][2]string     // uninterpreted functions of one slice: (name, row sort)
	localCells [][2]string    // (component, ref) of the local variables' own cells
	localTypes map[string]types.Type // every source-level local of the function under verification (from DebugRefs)
	matchedSites map[*CallSiteSpec]bool // `at call` clauses that applied to some call (vacuity guard)
	dynCallee     *Val  // function value of the call being translated (calls through function-valued fields)
	fnIDs         map[string]int
	replayParams  []Val  // entry values of the parameters (receiver first), for counterexample replay
	replayResults []Val  // results merged over all returns
	replayExit    *State // merged exit state (post-heap of slice parameters)
}

func newVC(eng *Engine, fn *ssa.Function, spec *FuncSpec) *VC {
	vc := &VC{eng: eng, fn: fn, spec: spec, declared: map[string]bool{}, compSort: map[string]string{}, init: map[string]string{},
		opaque: map[string]bool{}, inlined: map[string]bool{}, callOrd: map[string]int{}, typeTags: map[string]int{}, strLits: map[string]bool{}, uses: map[string]bool{}}
	vc.emit("(set-option :produce-models true)")
	vc.emit("(set-logic ALL)")
	vc.emit("(declare-datatypes ((Slice 0)) (((mk_slice (s_arr Int) (s_off Int) (s_len Int) (s_cap Int)))))")
	vc.emit("(declare-fun dyntype (Int) Int)")
	vc.emit("(declare-fun implements (Int Int) Bool)")
	for _, l := range eng.specs.RawSMT {
		vc.emit(l)
	}
	return vc
}

func (vc *VC) emit(l string) { vc.lines = append(vc.lines, l) }

func (vc *VC) fresh(prefix string) string {
	vc.n++
	return fmt.Sprintf("%s!%d", sanitize(prefix), vc.n)
}

func sanitize(s string) string {
	var sb strings.Builder
	for _, r := range s {
		if (r >= 'a' && r <= 'z') || (r >= 'A' && r <= 'Z') || (r >= '0' && r <= '9') || r == '_' || r == '.' || r == '$' {
			sb.WriteRune(r)
		} else {
			sb.WriteByte('_')
		}
	}
	return sb.String()
}

func (vc *VC) declConst(name, sort string) string {
	if !vc.declared[name] {
		vc.declared[name] = true
		vc.emit(fmt.Sprintf("(declare-const %s %s)", name, sort))
	}
	return name
}

func (vc *VC) freshConst(prefix, sort string) string {
	return vc.declConst(vc.fresh(prefix), sort)
}

// define introduces a named abbreviation for a term (keeps terms small).
func (vc *VC) define(prefix, sort, term string) string {
	if len(term) < 40 && !strings.Contains(term, " ") {
		return term
	}
	if strings.Contains(term, "?") { // contains a bound variable: cannot be hoisted
		return term
	}
	n := vc.freshConst(prefix, sort)
	vc.emit(fmt.Sprintf("(assert (= %s %s))", n, term))
	return n
}

func (vc *VC) fatalf(f string, a ...any) {
	vc.fatal = append(vc.fatal, fmt.Sprintf(f, a...))
}

func (vc *VC) note(s string) {
	for _, n := range vc.notes {
		if n == s {
			return
		}
	}
	vc.notes = append(vc.notes, s)
}

// ---------------------------------------------------------------- sorts

func isStruct(t types.Type) (*types.Struct, bool) {
	s, ok := t.Underlying().(*types.Struct)
	return s, ok
}

func (vc *VC) sortOf(t types.Type) string {
	if t == nil {
		return "Int"
	}
	switch u := t.(type) {
	case *types.Named:
		if _, ok := u.Underlying().(*types.Struct); ok {
			return vc.structSort(u, u.Underlying().(*types.Struct))
		}
		return vc.sortOf(u.Underlying())
	case *types.Alias:
		return vc.sortOf(types.Unalias(u))
	case *types.TypeParam:
		name := "TP_" + sanitize(u.Obj().Name())
		if !vc.declared[name] {
			vc.declared[name] = true
			vc.emit(fmt.Sprintf("(declare-sort %s 0)", name))
			vc.emit(fmt.Sprintf("(declare-const zero_%s %s)", name, name))
		}
		return name
	case *types.Basic:
		switch {
		case u.Info()&types.IsBoolean != 0:
			return "Bool"
		case u.Info()&types.IsInteger != 0:
			return "Int"
		case u.Info()&types.IsString != 0:
			return "Str"
		case u.Info()&types.IsFloat != 0:
			return "Real"
		}
		return "Int"
	case *types.Pointer, *types.Map, *types.Chan, *types.Signature, *types.Interface:
		return "Int"
	case *types.Slice:
		return "Slice"
	case *types.Array:
		es := vc.sortOf(u.Elem())
		name := fmt.Sprintf("A%d_%s", u.Len(), sanitize(es))
		if !vc.declared[name] {
			vc.declared[name] = true
			vc.emit(fmt.Sprintf("(declare-sort %s 0)", name))
			vc.emit(fmt.Sprintf("(declare-fun at_%s (%s Int) %s)", name, name, es))
			vc.emit(fmt.Sprintf("(declare-const zero_%s %s)", name, name))
			if u.Len() <= 64 {
				for i := int64(0); i < u.Len(); i++ {
					vc.emit(fmt.Sprintf("(assert (= (at_%s zero_%s %d) %s))", name, name, i, vc.zeroOfSort(es, u.Elem())))
				}
				// extensionality via a constructor function (single-variable axiom)
				if u.Len() <= 16 && vc.spec != nil && vc.spec.Extensional {
					var ps, as []string
					for i := int64(0); i < u.Len(); i++ {
						ps = append(ps, es)
						as = append(as, fmt.Sprintf("(at_%s a %d)", name, i))
					}
					vc.emit(fmt.Sprintf("(declare-fun mk_%s (%s) %s)", name, strings.Join(ps, " "), name))
					vc.emit(fmt.Sprintf("(assert (forall ((a %s)) (! (= a (mk_%s %s)) :pattern ((at_%s a 0)))))", name, name, strings.Join(as, " "), name))
				}
			}
		}
		return name
	case *types.Struct:
		return vc.structSort(nil, u)
	case *types.Tuple:
		return "Int"
	}
	return "Int"
}

var aliasRe = regexp.MustCompile(`\b(byte|rune|any)\b`)

func typeKey(t types.Type) string {
	s := types.TypeString(t, func(p *types.Package) string {
		// the repository's and the standard library's packages have unique names among those we load,
		// except internal twins (sync / internal/sync): disambiguate internal ones by path
		if strings.Contains(p.Path(), "internal/") {
			return strings.ReplaceAll(p.Path(), "/", "_")
		}
		return p.Name()
	})
	s = aliasRe.ReplaceAllStringFunc(s, func(m string) string {
		if m == "byte" {
			return "uint8"
		}
		if m == "any" {
			return "interface{}"
		}
		return "int32"
	})
	return sanitize(s)
}

func (vc *VC) structSort(named *types.Named, st *types.Struct) string {
	var name string
	if named != nil {
		name = "S_" + typeKey(named)
	} else {
		name = "S_anon_" + typeKey(st)
		if len(name) > 60 {
			name = name[:60] + strconv.Itoa(len(name))
		}
	}
	if vc.declared[name] {
		return name
	}
	vc.declared[name] = true
	var fields []string
	for i := 0; i < st.NumFields(); i++ {
		f := st.Field(i)
		fs := vc.sortOf(f.Type())
		fields = append(fields, fmt.Sprintf("(%s_%s %s)", name, fieldName(st, i), fs))
	}
	vc.emit(fmt.Sprintf("(declare-datatypes ((%s 0)) (((mk_%s %s))))", name, name, strings.Join(fields, " ")))
	return name
}

// fieldName: sanitized field name; blank fields get their index so accessors stay distinct.
func fieldName(st *types.Struct, i int) string {
	n := st.Field(i).Name()
	if n == "_" {
		return fmt.Sprintf("blank%d", i)
	}
	return sanitize(n)
}

func (vc *VC) fieldAcc(structT types.Type, i int) string {
	st, _ := isStruct(structT)
	return fmt.Sprintf("%s_%s", vc.sortOf(structT), fieldName(st, i))
}

func (vc *VC) zeroOfSort(sort string, t types.Type) string {
	switch sort {
	case "Bool":
		return "false"
	case "Int":
		return "0"
	case "Real":
		return "0.0"
	case "Str":
		return "|s:|"
	case "Slice":
		return "(mk_slice 0 0 0 0)"
	}
	if strings.HasPrefix(sort, "S_") {
		st, ok := isStruct(t)
		if !ok {
			return "zero_" + sort
		}
		if st.NumFields() == 0 {
			return "mk_" + sort
		}
		var fs []string
		for i := 0; i < st.NumFields(); i++ {
			fs = append(fs, vc.zeroOfSort(vc.sortOf(st.Field(i).Type()), st.Field(i).Type()))
		}
		return fmt.Sprintf("(mk_%s %s)", sort, strings.Join(fs, " "))
	}
	return "zero_" + sort
}

// zeroRow: an array row whose every element is the zero value of the element sort. For interpreted element sorts this is an
// SMT constant array; for uninterpreted sorts (strings, type parameters, fixed-size arrays) the zero is a declared constant,
// which cvc5 does not accept as the value of `as const`: a declared row with a defining axiom is used instead.
func (vc *VC) zeroRow(es string, t types.Type) string {
	zero := vc.zeroOfSort(es, t)
	if !strings.Contains(zero, "|s:") && !strings.Contains(zero, "zero_") {
		return fmt.Sprintf("((as const (Array Int %s)) %s)", es, zero)
	}
	name := "zrow_" + sanitize(es)
	if !vc.declared[name] {
		vc.declared[name] = true
		vc.emit(fmt.Sprintf("(declare-const %s (Array Int %s))", name, es))
		vc.emit(fmt.Sprintf("(assert (forall ((i Int)) (! (= (select %s i) %s) :pattern ((select %s i)))))", name, zero, name))
	}
	return name
}

func (vc *VC) zeroVal(t types.Type) Val {
	if _, ok := t.Underlying().(*types.Slice); ok {
		return Val{Sl: &SliceVal{"0", "0", "0", "0"}, Typ: t}
	}
	s := vc.sortOf(t)
	return Val{T: vc.zeroOfSort(s, t), Typ: t}
}

// valTerm gives a single SMT term for a value (packing slices).
func (vc *VC) valTerm(v Val) string {
	if v.Sl != nil {
		return fmt.Sprintf("(mk_slice %s %s %s %s)", v.Sl.Arr, v.Sl.Off, v.Sl.Len, v.Sl.Cap)
	}
	if v.T == "" && v.Addr != nil {
		return vc.ptrOfAddr(v.Addr)
	}
	return v.T
}

// termVal wraps a term of Go type t into a Val (unpacking slices).
func (vc *VC) termVal(term string, t types.Type) Val {
	if t != nil {
		if _, ok := t.Underlying().(*types.Slice); ok {
			nm := term
			if strings.HasPrefix(term, "(mk_slice ") {
				parts := splitSexp(term[len("(mk_slice ") : len(term)-1])
				if len(parts) == 4 {
					return Val{Sl: &SliceVal{parts[0], parts[1], parts[2], parts[3]}, Typ: t}
				}
			}
			if strings.Contains(term, " ") {
				nm = vc.define("sl", "Slice", term)
			}
			// slices held in the heap start at offset 0 of their backing array (stores of resliced slices are rejected)
			return Val{Sl: &SliceVal{"(s_arr " + nm + ")", "0", "(s_len " + nm + ")", "(s_cap " + nm + ")"}, Typ: t}
		}
	}
	return Val{T: term, Typ: t}
}

func splitSexp(s string) []string {
	var out []string
	depth := 0
	start := -1
	inStr := false
	for i := 0; i < len(s); i++ {
		c := s[i]
		if inStr {
			if c == '"' {
				inStr = false
				if depth == 0 {
					out = append(out, s[start:i+1])
					start = -1
				}
			}
			continue
		}
		switch c {
		case '"':
			inStr = true
			if depth == 0 && start < 0 {
				start = i
			}
		case '(':
			if depth == 0 {
				start = i
			}
			depth++
		case ')':
			depth--
			if depth == 0 {
				out = append(out, s[start:i+1])
				start = -1
			}
		case ' ', '\t', '\n':
			if depth == 0 && start >= 0 {
				out = append(out, s[start:i])
				start = -1
			}
		default:
			if depth == 0 && start < 0 {
				start = i
			}
		}
	}
	if start >= 0 {
		out = append(out, s[start:])
	}
	return out
}

// rangeAssume returns a constraint on a fresh value of type t ("" if none).
func (vc *VC) rangeAssume(v Val) string {
	if v.Typ == nil {
		return ""
	}
	if _, isTP := types.Unalias(v.Typ).(*types.TypeParam); isTP {
		return "" // opaque sort
	}
	if v.Sl != nil {
		return fmt.Sprintf("(and (<= 0 %s) (<= %s %s) (<= 0 %s) (<= 0 %s) (=> (= %s 0) (= %s 0)))", v.Sl.Len, v.Sl.Len, v.Sl.Cap, v.Sl.Off, v.Sl.Arr, v.Sl.Arr, v.Sl.Cap)
	}
	switch u := v.Typ.Underlying().(type) {
	case *types.Basic:
		if u.Info()&types.IsString != 0 {
			return fmt.Sprintf("(>= (str.len %s) 0)", v.T)
		}
		lo, hi, ok := intRange(u)
		if ok {
			if lo != "" && hi != "" {
				return fmt.Sprintf("(and (<= %s %s) (<= %s %s))", lo, v.T, v.T, hi)
			}
			if lo != "" {
				return fmt.Sprintf("(<= %s %s)", lo, v.T)
			}
		}
	case *types.Pointer, *types.Map, *types.Chan:
		return fmt.Sprintf("(<= 0 %s)", v.T)
	case *types.Interface:
		return fmt.Sprintf("(<= 0 %s)", v.T)
	}
	return ""
}

func intRange(b *types.Basic) (lo, hi string, ok bool) {
	switch b.Kind() {
	case types.Uint8:
		return "0", "255", true
	case types.Uint16:
		return "0", "65535", true
	case types.Uint32:
		return "0", "4294967295", true
	case types.Uint64, types.Uint, types.Uintptr:
		return "0", "18446744073709551615", true
	case types.Int8:
		return "(- 128)", "127", true
	case types.Int16:
		return "(- 32768)", "32767", true
	case types.Int32:
		return "(- 2147483648)", "2147483647", true
	case types.Int, types.Int64:
		return "(- 9223372036854775808)", "9223372036854775807", true
	}
	return "", "", false
}

// ---------------------------------------------------------------- heap components

func (vc *VC) comp(name, sort string) string {
	if _, ok := vc.compSort[name]; !ok {
		vc.compSort[name] = sort
	}
	return name
}

func (vc *VC) fieldComp(structT types.Type, i int) string {
	st, _ := isStruct(structT)
	name := "F_" + strings.TrimPrefix(vc.sortOf(structT), "S_") + "." + fieldName(st, i)
	return vc.comp(name, fmt.Sprintf("(Array Int %s)", vc.sortOf(st.Field(i).Type())))
}

func (vc *VC) elemComp(elem types.Type) string {
	es := vc.sortOf(elem)
	return vc.comp("E_"+typeKey(elem), fmt.Sprintf("(Array Int (Array Int %s))", es))
}

func (vc *VC) cellComp(t types.Type) string {
	s := vc.sortOf(t)
	return vc.comp("P_"+typeKey(t), fmt.Sprintf("(Array Int %s)", s))
}

func (vc *VC) globalComp(g *ssa.Global) string {
	t := g.Type().(*types.Pointer).Elem()
	return vc.comp("G_"+sanitize(g.Pkg.Pkg.Name())+"."+sanitize(g.Name()), vc.sortOf(t))
}

func (vc *VC) mapComps(mt *types.Map) (val, dom string) {
	ks, vs := vc.sortOf(mt.Key()), vc.sortOf(mt.Elem())
	val = vc.comp("M_"+typeKey(mt), fmt.Sprintf("(Array Int (Array %s %s))", ks, vs))
	dom = vc.comp("MD_"+typeKey(mt), fmt.Sprintf("(Array Int (Array %s Bool))", ks))
	return
}

func (vc *VC) mapLenComp() string { return vc.comp("ML", "(Array Int Int)") }

func (vc *VC) nextComp() string { return vc.comp("$next", "Int") }

// get returns the current term of a component in a state (declaring its initial value lazily).
func (vc *VC) get(st *State, comp string) string {
	if t, ok := st.heap[comp]; ok {
		return t
	}
	return vc.initOf(comp)
}

func (vc *VC) initOf(comp string) string {
	if t, ok := vc.init[comp]; ok {
		return t
	}
	sort, ok := vc.compSort[comp]
	if !ok {
		panic("unknown component " + comp)
	}
	n := vc.declConst(sanitize(comp)+"@0", sort)
	vc.init[comp] = n
	return n
}

func (vc *VC) set(st *State, comp, term string) {
	sort := vc.compSort[comp]
	st.heap[comp] = vc.define(comp, sort, term)
}

func (vc *VC) havoc(st *State, comp string) string {
	n := vc.freshConst(comp, vc.compSort[comp])
	if comp == "$next" { // the allocation counter only grows
		vc.emit(fmt.Sprintf("(assert (>= %s %s))", n, vc.get(st, comp)))
	}
	if strings.HasPrefix(comp, "ghost.") {
		if g := vc.eng.specs.Ghosts[strings.TrimPrefix(comp, "ghost.")]; g != nil && g.Monotone {
			vc.emit(fmt.Sprintf("(assert (>= %s %s))", n, vc.get(st, comp)))
		}
	}
	st.heap[comp] = n
	return n
}

// assume adds a formula to the path condition.
func (vc *VC) assume(st *State, f string) {
	if f == "" || f == "true" {
		return
	}
	n := vc.freshConst("pc", "Bool")
	vc.emit(fmt.Sprintf("(assert (= %s (and %s %s)))", n, st.pc, f))
	st.pc = n
}

// oblige records an obligation at the current point and then assumes it.
func (vc *VC) oblige(st *State, name, kind, goal, src string, pos token.Pos) *Obligation {
	o := &Obligation{Name: name, Fn: vc.fnName(), Pc: st.pc, Goal: goal, NLines: len(vc.lines), Kind: kind, Src: src}
	if pos.IsValid() {
		o.Pos = vc.eng.fset.Position(pos)
	}
	vc.obls = append(vc.obls, o)
	vc.assume(st, goal)
	return o
}

func (vc *VC) fnName() string {
	if vc.fn != nil {
		return vc.eng.qualName(vc.fn)
	}
	return "lemma"
}

// query builds the SMT-LIB text for an obligation.
func (vc *VC) query(o *Obligation) string {
	var body strings.Builder
	for _, l := range vc.lines[2:o.NLines] {
		body.WriteString(l)
		body.WriteByte('\n')
	}
	body.WriteString(fmt.Sprintf("(assert %s)\n", o.Pc))
	if o.Vacuity {
		body.WriteString(fmt.Sprintf("(assert %s)\n", o.Goal))
	} else {
		body.WriteString(fmt.Sprintf("(assert (not %s))\n", o.Goal))
	}
	body.WriteString("(check-sat)\n(get-model)\n")
	text := strOps.Replace(body.String())
	// string literals used in this query: distinct constants with known lengths
	lits := map[string]bool{}
	for _, m := range strLitRe.FindAllStringSubmatch(text, -1) {
		lits[m[1]] = true
	}
	lits[""] = true
	var names []string
	for h := range lits {
		names = append(names, h)
	}
	sort.Strings(names)
	var sb strings.Builder
	sb.WriteString(vc.lines[0] + "\n" + vc.lines[1] + "\n")
	sb.WriteString(strPrelude)
	for _, ax := range strAxioms {
		if strings.Contains(text, ax[0]) {
			sb.WriteString(ax[1])
		}
	}
	var all []string
	for _, h := range names {
		sb.WriteString(fmt.Sprintf("(declare-const |s:%s| Str)\n(assert (= (u.len |s:%s|) %d))\n", h, h, len(h)/2))
		if len(h)/2 <= 8 && strings.Contains(text, "(u.code ") { // short literals know their characters (only where characters are looked at)
			for k := 0; k+1 < len(h); k += 2 {
				b, _ := strconv.ParseUint(h[k:k+2], 16, 8)
				sb.WriteString(fmt.Sprintf("(assert (= (u.code (u.at |s:%s| %d)) %d))\n", h, k/2, b))
			}
		}
		all = append(all, "|s:"+h+"|")
	}
	if len(all) > 1 {
		sb.WriteString("(assert (distinct " + strings.Join(all, " ") + "))\n")
	}
	sb.WriteString(text)
	return sb.String()
}

// ---------------------------------------------------------------- merging

type edgeIn struct {
	cond string
	st   *State
}

// merge joins states along edges; returns a state whose pc is the disjunction.
func (vc *VC) merge(edges []edgeIn, label string) *State {
	if len(edges) == 0 {
		return &State{pc: "false", heap: map[string]string{}, dead: true}
	}
	if len(edges) == 1 {
		s := edges[0].st.clone()
		s.pc = edges[0].cond
		return s
	}
	out := &State{heap: map[string]string{}}
	// locals: keep the bindings all incoming edges agree on (others are re-bound by named phis)
	if edges[0].st.locals != nil {
		out.locals = map[string]Val{}
		for k, v := range edges[0].st.locals {
			same := true
			for _, e := range edges[1:] {
				if w, ok := e.st.locals[k]; !ok || !sameVal(v, w) {
					same = false
					break
				}
			}
			if same {
				out.locals[k] = v
			} else if os.Getenv("GOVC_DBG") != "" {
				fmt.Fprintf(os.Stderr, "DBG merge %s drops local %s\n", label, k)
			}
		}
	}
	var conds []string
	for _, e := range edges {
		conds = append(conds, e.cond)
	}
	pc := vc.freshConst("at_"+label, "Bool")
	vc.emit(fmt.Sprintf("(assert (= %s (or %s)))", pc, strings.Join(conds, " ")))
	out.pc = pc
	keys := map[string]bool{}
	for _, e := range edges {
		for k := range e.st.heap {
			keys[k] = true
		}
	}
	var ks []string
	for k := range keys {
		ks = append(ks, k)
	}
	sort.Strings(ks)
	for _, k := range ks {
		first := vc.get(edges[0].st, k)
		same := true
		for _, e := range edges[1:] {
			if vc.get(e.st, k) != first {
				same = false
			}
		}
		if same {
			out.heap[k] = first
			continue
		}
		n := vc.freshConst(k, vc.compSort[k])
		for _, e := range edges {
			vc.emit(fmt.Sprintf("(assert (=> %s (= %s %s)))", e.cond, n, vc.get(e.st, k)))
		}
		out.heap[k] = n
	}
	return out
}

// mergeVals joins SSA values along edges (used for phis and inlined returns).
func (vc *VC) mergeVals(conds []string, vals []Val, t types.Type, label string) Val {
	if len(vals) == 1 {
		return vals[0]
	}
	allSame := true
	for _, v := range vals[1:] {
		if vc.valTerm(v) != vc.valTerm(vals[0]) {
			allSame = false
		}
	}
	if allSame {
		return vals[0]
	}
	if _, ok := t.Underlying().(*types.Tuple); ok {
		tup := t.Underlying().(*types.Tuple)
		out := Val{Typ: t}
		for i := 0; i < tup.Len(); i++ {
			var vs []Val
			for _, v := range vals {
				vs = append(vs, v.Tuple[i])
			}
			out.Tuple = append(out.Tuple, vc.mergeVals(conds, vs, tup.At(i).Type(), label))
		}
		return out
	}
	if _, ok := t.Underlying().(*types.Slice); ok {
		get := func(v Val) *SliceVal {
			if v.Sl == nil {
				return &SliceVal{"0", "0", "0", "0"}
			}
			return v.Sl
		}
		// components on which all edges agree syntactically are kept (in particular a literal offset 0)
		pick := func(f func(*SliceVal) string, name string) string {
			first := f(get(vals[0]))
			for _, v := range vals[1:] {
				if f(get(v)) != first {
					n := vc.freshConst(label+"."+name, "Int")
					for i, w := range vals {
						vc.emit(fmt.Sprintf("(assert (=> %s (= %s %s)))", conds[i], n, f(get(w))))
					}
					return n
				}
			}
			return first
		}
		sl := &SliceVal{
			Arr: pick(func(s *SliceVal) string { return s.Arr }, "arr"),
			Off: pick(func(s *SliceVal) string { return s.Off }, "off"),
			Len: pick(func(s *SliceVal) string { return s.Len }, "len"),
			Cap: pick(func(s *SliceVal) string { return s.Cap }, "cap"),
		}
		return Val{Sl: sl, Typ: t}
	}
	n := vc.freshConst(label, vc.sortOf(t))
	for i, v := range vals {
		vc.emit(fmt.Sprintf("(assert (=> %s (= %s %s)))", conds[i], n, vc.valTerm(v)))
	}
	out := Val{T: n, Typ: t}
	// keep closure/global identity if all agree
	return out
}

// ---------------------------------------------------------------- memory access

func (vc *VC) ptrOfAddr(a *Addr) string {
	if len(a.Path) == 0 && a.Kind != aGlobal {
		return a.Ref
	}
	return ""
}

// addrOfPtr turns a pointer value into an address.
func (vc *VC) addrOfPtr(v Val) *Addr {
	if v.Addr != nil {
		return v.Addr
	}
	pt, ok := v.Typ.Underlying().(*types.Pointer)
	if !ok {
		vc.fatalf("address of non-pointer %v", v.Typ)
		return &Addr{Kind: aCell, Ref: "0", Typ: types.Typ[types.Int]}
	}
	el := pt.Elem()
	if _, ok := isStruct(el); ok {
		return &Addr{Kind: aObj, Ref: v.T, Typ: el}
	}
	if at, ok := el.Underlying().(*types.Array); ok {
		return &Addr{Kind: aRow, Ref: v.T, Typ: el, Elem: at.Elem()}
	}
	return &Addr{Kind: aCell, Ref: v.T, Typ: el}
}

// pointeeType computes the type designated by an address.
func (vc *VC) pointeeType(a *Addr) types.Type {
	t := a.Typ
	for i, s := range a.Path {
		if a.Kind == aRow && i == 0 && s.IsIndex {
			t = a.Elem
			continue
		}
		if s.IsIndex {
			switch u := t.Underlying().(type) {
			case *types.Array:
				t = u.Elem()
			default:
				vc.fatalf("index step into %v", t)
				return t
			}
		} else {
			st, ok := isStruct(t)
			if !ok {
				vc.fatalf("field step into %v", t)
				return t
			}
			t = st.Field(s.Field).Type()
		}
	}
	return t
}

// project applies value-level steps to a term.
func (vc *VC) project(term string, t types.Type, path []Step) (string, types.Type) {
	for _, s := range path {
		if s.IsIndex {
			at := t.Underlying().(*types.Array)
			term = fmt.Sprintf("(at_%s %s %s)", vc.sortOf(t), term, s.Index)
			t = at.Elem()
		} else {
			st, _ := isStruct(t)
			term = fmt.Sprintf("(%s %s)", vc.fieldAcc(t, s.Field), term)
			t = st.Field(s.Field).Type()
		}
	}
	return term, t
}

// update rebuilds a value with the designated sub-part replaced.
func (vc *VC) update(term string, t types.Type, path []Step, nv string) string {
	if len(path) == 0 {
		return nv
	}
	s := path[0]
	if s.IsIndex {
		at := t.Underlying().(*types.Array)
		sortA := vc.sortOf(t)
		inner := vc.update(fmt.Sprintf("(at_%s %s %s)", sortA, term, s.Index), at.Elem(), path[1:], nv)
		res := vc.freshConst("arrupd", sortA)
		if at.Len() <= 64 {
			for i := int64(0); i < at.Len(); i++ {
				vc.emit(fmt.Sprintf("(assert (= (at_%s %s %d) (ite (= %s %d) %s (at_%s %s %d))))", sortA, res, i, s.Index, i, inner, sortA, term, i))
			}
		} else {
			vc.emit(fmt.Sprintf("(assert (forall ((i Int)) (= (at_%s %s i) (ite (= i %s) %s (at_%s %s i)))))", sortA, res, s.Index, inner, sortA, term))
		}
		return res
	}
	st, _ := isStruct(t)
	sortS := vc.sortOf(t)
	var fs []string
	for i := 0; i < st.NumFields(); i++ {
		cur := fmt.Sprintf("(%s %s)", vc.fieldAcc(t, i), term)
		if i == s.Field {
			cur = vc.update(cur, st.Field(i).Type(), path[1:], nv)
		}
		fs = append(fs, cur)
	}
	if len(fs) == 0 {
		return "mk_" + sortS
	}
	return fmt.Sprintf("(mk_%s %s)", sortS, strings.Join(fs, " "))
}

func (vc *VC) load(st *State, a *Addr) Val {
	switch a.Kind {
	case aObj:
		sT, _ := isStruct(a.Typ)
		if len(a.Path) == 0 {
			var fs []string
			for i := 0; i < sT.NumFields(); i++ {
				fs = append(fs, fmt.Sprintf("(select %s %s)", vc.get(st, vc.fieldComp(a.Typ, i)), a.Ref))
			}
			sortS := vc.sortOf(a.Typ)
			if len(fs) == 0 {
				return Val{T: "mk_" + sortS, Typ: a.Typ}
			}
			return Val{T: fmt.Sprintf("(mk_%s %s)", sortS, strings.Join(fs, " ")), Typ: a.Typ}
		}
		f := a.Path[0]
		if f.IsIndex {
			vc.fatalf("index step on object root")
			return Val{T: "0", Typ: types.Typ[types.Int]}
		}
		term := fmt.Sprintf("(select %s %s)", vc.get(st, vc.fieldComp(a.Typ, f.Field)), a.Ref)
		term, t := vc.project(term, sT.Field(f.Field).Type(), a.Path[1:])
		return vc.termVal(term, t)
	case aRow:
		if len(a.Path) == 0 {
			// whole array value
			at, ok := a.Typ.Underlying().(*types.Array)
			if !ok {
				vc.fatalf("whole-row load of non-array")
				return Val{T: "0", Typ: a.Typ}
			}
			sortA := vc.sortOf(a.Typ)
			res := vc.freshConst("arrval", sortA)
			row := fmt.Sprintf("(select %s %s)", vc.get(st, vc.elemComp(a.Elem)), a.Ref)
			if at.Len() <= 64 {
				for i := int64(0); i < at.Len(); i++ {
					vc.emit(fmt.Sprintf("(assert (= (at_%s %s %d) (select %s %d)))", sortA, res, i, row, i))
				}
			} else {
				vc.emit(fmt.Sprintf("(assert (forall ((i Int)) (= (at_%s %s i) (select %s i))))", sortA, res, row))
			}
			return Val{T: res, Typ: a.Typ}
		}
		s0 := a.Path[0]
		term := fmt.Sprintf("(select (select %s %s) %s)", vc.get(st, vc.elemComp(a.Elem)), a.Ref, s0.Index)
		term, t := vc.project(term, a.Elem, a.Path[1:])
		return vc.termVal(term, t)
	case aCell:
		term := fmt.Sprintf("(select %s %s)", vc.get(st, vc.cellComp(a.Typ)), a.Ref)
		term, t := vc.project(term, a.Typ, a.Path)
		return vc.termVal(term, t)
	case aGlobal:
		base := vc.get(st, a.Comp)
		if ce, ok := vc.eng.specs.Consts[a.GKey]; ok {
			env := &SpecEnv{vc: vc, st: st, old: st, vars: map[string]Val{}}
			if k := strings.LastIndex(a.GKey, "."); k > 0 {
				env.pkg = vc.eng.pkgByPath(a.GKey[:k])
			}
			base = vc.valTerm(vc.trExpr(env, ce))
		}
		term, t := vc.project(base, a.Typ, a.Path)
		v := vc.termVal(term, t)
		return v
	}
	panic("bad addr kind")
}

func (vc *VC) store(st *State, a *Addr, v Val) {
	if v.Sl != nil && v.Sl.Off != "0" {
		vc.fatalf("a resliced slice (non-zero offset) is stored into the heap; stored slices are modelled at offset 0")
	}
	nv := vc.valTerm(v)
	switch a.Kind {
	case aObj:
		sT, _ := isStruct(a.Typ)
		if len(a.Path) == 0 {
			// whole-struct store: decompose
			for i := 0; i < sT.NumFields(); i++ {
				c := vc.fieldComp(a.Typ, i)
				vc.set(st, c, fmt.Sprintf("(store %s %s (%s %s))", vc.get(st, c), a.Ref, vc.fieldAcc(a.Typ, i), nv))
			}
			return
		}
		f := a.Path[0]
		c := vc.fieldComp(a.Typ, f.Field)
		cur := vc.get(st, c)
		if len(a.Path) > 1 {
			nv = vc.update(fmt.Sprintf("(select %s %s)", cur, a.Ref), sT.Field(f.Field).Type(), a.Path[1:], nv)
		}
		vc.set(st, c, fmt.Sprintf("(store %s %s %s)", cur, a.Ref, nv))
	case aRow:
		c := vc.elemComp(a.Elem)
		cur := vc.get(st, c)
		if len(a.Path) == 0 {
			at, ok := a.Typ.Underlying().(*types.Array)
			if !ok {
				vc.fatalf("whole-row store of non-array")
				return
			}
			row := vc.freshConst("row", fmt.Sprintf("(Array Int %s)", vc.sortOf(a.Elem)))
			sortA := vc.sortOf(a.Typ)
			if at.Len() <= 64 {
				for i := int64(0); i < at.Len(); i++ {
					vc.emit(fmt.Sprintf("(assert (= (select %s %d) (at_%s %s %d)))", row, i, sortA, nv, i))
				}
			} else {
				vc.emit(fmt.Sprintf("(assert (forall ((i Int)) (= (select %s i) (at_%s %s i))))", row, sortA, nv))
			}
			vc.set(st, c, fmt.Sprintf("(store %s %s %s)", cur, a.Ref, row))
			return
		}
		s0 := a.Path[0]
		if len(a.Path) > 1 {
			nv = vc.update(fmt.Sprintf("(select (select %s %s) %s)", cur, a.Ref, s0.Index), a.Elem, a.Path[1:], nv)
		}
		vc.set(st, c, fmt.Sprintf("(store %s %s (store (select %s %s) %s %s))", cur, a.Ref, cur, a.Ref, s0.Index, nv))
	case aCell:
		c := vc.cellComp(a.Typ)
		cur := vc.get(st, c)
		if len(a.Path) > 0 {
			nv = vc.update(fmt.Sprintf("(select %s %s)", cur, a.Ref), a.Typ, a.Path, nv)
		}
		vc.set(st, c, fmt.Sprintf("(store %s %s %s)", cur, a.Ref, nv))
	case aGlobal:
		if len(a.Path) > 0 {
			nv = vc.update(vc.get(st, a.Comp), a.Typ, a.Path, nv)
		}
		vc.set(st, a.Comp, nv)
	}
}

// alloc creates a fresh reference (distinct from everything allocated before).
func (vc *VC) alloc(st *State, label string) string {
	nc := vc.nextComp()
	r := vc.freshConst(label, "Int")
	vc.emit(fmt.Sprintf("(assert (> %s %s))", r, vc.get(st, nc)))
	vc.emit(fmt.Sprintf("(assert (> %s 0))", r))
	st.heap[nc] = r
	return r
}

// allocObj allocates a zeroed object of type t and returns a pointer value to it.
func (vc *VC) allocObj(st *State, t types.Type, label string) Val {
	r := vc.alloc(st, label)
	pt := types.NewPointer(t)
	if sT, ok := isStruct(t); ok {
		for i := 0; i < sT.NumFields(); i++ {
			c := vc.fieldComp(t, i)
			ft := sT.Field(i).Type()
			vc.set(st, c, fmt.Sprintf("(store %s %s %s)", vc.get(st, c), r, vc.zeroOfSort(vc.sortOf(ft), ft)))
		}
		return Val{T: r, Typ: pt}
	}
	if at, ok := t.Underlying().(*types.Array); ok {
		c := vc.elemComp(at.Elem())
		es := vc.sortOf(at.Elem())
		vc.set(st, c, fmt.Sprintf("(store %s %s %s)", vc.get(st, c), r, vc.zeroRow(es, at.Elem())))
		return Val{T: r, Typ: pt}
	}
	c := vc.cellComp(t)
	vc.set(st, c, fmt.Sprintf("(store %s %s %s)", vc.get(st, c), r, vc.zeroOfSort(vc.sortOf(t), t)))
	return Val{T: r, Typ: pt}
}

// typeTag returns a distinct integer for a concrete dynamic type.
var aliasRe3 = regexp.MustCompile(`\b(any|byte|rune)\b`)

// canonTypeString spells the predeclared aliases out (any, byte, rune), so that identical types get one name.
func canonTypeString(s string) string {
	return aliasRe3.ReplaceAllStringFunc(s, func(m string) string {
		switch m {
		case "any":
			return "interface{}"
		case "byte":
			return "uint8"
		}
		return "int32"
	})
}

func (vc *VC) typeTag(t types.Type) int {
	k := canonTypeString(types.TypeString(t, nil))
	if n, ok := vc.typeTags[k]; ok {
		return n
	}
	vc.tagNext++
	vc.typeTags[k] = vc.tagNext
	return vc.tagNext
}

func (vc *VC) boxFns(t types.Type) (box, unbox string) {
	s := vc.sortOf(t)
	key := sanitize(canonTypeString(types.TypeString(t, func(p *types.Package) string { return p.Name() })))
	box, unbox = "box_"+key, "unbox_"+key
	if !vc.declared[box] {
		vc.declared[box] = true
		vc.emit(fmt.Sprintf("(declare-fun %s (%s) Int)", box, s))
		vc.emit(fmt.Sprintf("(declare-fun %s (Int) %s)", unbox, s))
	}
	return
}

// Go strings are modelled by an uninterpreted sort Str (no SMT string theory): a literal is a constant named
// after its bytes (hex), literals are pairwise distinct and know their length; see query() for the declarations.
func smtStr(s string) string {
	return fmt.Sprintf("|s:%x|", []byte(s))
}

var strLitRe = regexp.MustCompile(`\|s:([0-9a-f]*)\|`)

// strPrelude: declarations of the string model; the string-theory operator names used by the generator are
// mapped to these uninterpreted functions when a query is printed.
const strPrelude = `(declare-sort Str 0)
(declare-fun u.len (Str) Int)
(declare-fun u.at (Str Int) Str)
(declare-fun u.cat (Str Str) Str)
(declare-fun u.lt (Str Str) Bool)
(declare-fun u.le (Str Str) Bool)
(declare-fun u.sub (Str Int Int) Str)
(declare-fun u.code (Str) Int)
(declare-fun u.fromcode (Int) Str)
`

// axioms of the string model, added to a query only when it mentions the operation (quantified axioms make
// the solvers answer unknown instead of sat on the vacuity cover queries)
var strAxioms = [][2]string{
	{"(u.cat ", "(assert (forall ((a Str) (b Str)) (! (= (u.len (u.cat a b)) (+ (u.len a) (u.len b))) :pattern ((u.cat a b)))))\n" +
		"(assert (forall ((a Str) (b Str) (i Int)) (! (=> (and (<= 0 i) (< i (+ (u.len a) (u.len b)))) (= (u.at (u.cat a b) i) (ite (< i (u.len a)) (u.at a i) (u.at b (- i (u.len a)))))) :pattern ((u.at (u.cat a b) i)))))\n" +
		"(assert (forall ((a Str)) (! (>= (u.len a) 0) :pattern ((u.len a)))))\n"},
	{"(u.le ", "(assert (forall ((a Str) (b Str)) (! (= (u.le a b) (or (u.lt a b) (= a b))) :pattern ((u.le a b)))))\n"},
	{"(u.lt ", "(assert (forall ((a Str) (b Str)) (! (not (and (u.lt a b) (u.lt b a))) :pattern ((u.lt a b)))))\n"},
}

const strPreludeEnd = ``

var strOps = strings.NewReplacer("(str.len ", "(u.len ", "(str.at ", "(u.at ", "(str.++ ", "(u.cat ", "(str.< ", "(u.lt ", "(str.<= ", "(u.le ",
	"(str.substr ", "(u.sub ", "(str.to_code ", "(u.code ", "(str.from_code ", "(u.fromcode ")

func smtInt(n int64) string {
	if n < 0 {
		return fmt.Sprintf("(- %d)", -n)
	}
	return strconv.FormatInt(n, 10)
}
