package main

// tryReplay turns a solver model into a concrete test of the real code where a replay template exists.
// Returns "confirmed", "not-confirmed" or "" (no template).
func tryReplay(eng *Engine, verif, prop string, it *solveItem, rec map[string]any) string {
	return ""
}

// cmdModset prints the computed (flow-insensitive, transitive) modification set of a function: debugging aid.
func cmdModset(args []string) {
	pkg, name := args[0], args[1]
	eng, err := NewEngine("/repo", "/verif", []string{pkg})
	if err != nil {
		println(err.Error())
		return
	}
	fn := eng.findFunc(&FuncSpec{Pkg: pkg, Name: name})
	if fn == nil {
		println("not found")
		return
	}
	ms := eng.modsetOf(fn)
	println("unknown:", ms.Unknown, "allocs:", ms.Allocs)
	for k := range ms.Comps {
		println("  comp", k)
	}
	for k := range ms.Events {
		println("  event", k)
	}
}
