package main

import (
	"bytes"
	"context"
	"fmt"
	"go/types"
	"os"
	"os/exec"
	"path/filepath"
	"sort"
	"strconv"
	"strings"
	"time"

	"golang.org/x/tools/go/ssa"
)

// ---------------------------------------------------------------- counterexample replay
//
// When an obligation is refuted with a model (`sat`), the model's values of the function's inputs are turned into a Go test
// that calls the REAL function (injected into its package with `go test -overlay`, nothing is written into /repo):
//   - for a safety obligation the replay is confirmed when the call panics;
//   - for a postcondition it is confirmed when the real call returns exactly what the model says it returns (results and the
//     final contents of slice parameters): the execution the solver found is then a real execution, so the clause it violates
//     is violated by the real code on that input.
// Only functions whose inputs can be built from the model are replayed: booleans, integers, fixed-size arrays and slices of
// integers/bytes, structs of these (by value or behind a pointer receiver/parameter; fields of other kinds are left zero and
// the record says so), errors (nil / non-nil) and context.Context. Everything else (strings - the string model is
// uninterpreted -, interfaces, maps, generic functions, closures) is reported as not replayable and the VIOLATION line keeps
// its `no-failing-input-found` suffix.

const replayMaxElems = 48

type leaf struct {
	term string
	val  string // filled from the model
}

type replayer struct {
	vc      *VC
	pkg     *types.Package
	imports map[string]string // path -> name
	leaves  []*leaf
	partial []string
	bad     string
	// slice lengths are fixed by a first query; the second query pins them and reads exactly that many elements
	pins     []string
	lenTerms []string
	lenVals  []int
	phase    int
}

const replayMaxSlice = 4096

// sliceLen registers a slice-length term and returns the number of elements to read for it in this phase.
func (r *replayer) sliceLen(term string) int {
	idx := len(r.lenTerms)
	r.lenTerms = append(r.lenTerms, term)
	if r.phase == 2 && idx < len(r.lenVals) && r.lenVals[idx] > 0 && r.lenVals[idx] <= replayMaxSlice {
		return r.lenVals[idx]
	}
	return 0
}

// addInt adds an integer leaf and pins it to the range of its Go type (elements the code never reads are otherwise
// unconstrained in the model; every real value is in range, so this excludes no real execution).
func (r *replayer) addInt(term string, t types.Type) *leaf {
	if b, ok := t.Underlying().(*types.Basic); ok {
		if lo, hi, ok := intRange(b); ok {
			r.pins = append(r.pins, fmt.Sprintf("(assert (and (<= %s %s) (<= %s %s)))", lo, term, term, hi))
		}
	}
	return r.add(term)
}

func (r *replayer) add(term string) *leaf {
	l := &leaf{term: term}
	r.leaves = append(r.leaves, l)
	return l
}

func (r *replayer) typeName(t types.Type) string {
	return types.TypeString(t, func(p *types.Package) string {
		if p == r.pkg {
			return ""
		}
		r.imports[p.Path()] = p.Name()
		return p.Name()
	})
}

func isIntKind(t types.Type) bool {
	b, ok := t.Underlying().(*types.Basic)
	return ok && b.Info()&types.IsInteger != 0
}

// builder returns a function producing the Go literal of a value once the leaves are filled (ok=false: not expressible).
// heap: state used to read heap contents (nil = entry heap).
func (r *replayer) builder(v Val, t types.Type, st *State) func() (string, bool) {
	vc := r.vc
	get := func(comp string) string {
		if st != nil {
			return vc.get(st, comp)
		}
		return vc.initOf(comp)
	}
	switch u := t.Underlying().(type) {
	case *types.Basic:
		switch {
		case u.Info()&types.IsBoolean != 0:
			l := r.add(v.T)
			return func() (string, bool) { return l.val, l.val == "true" || l.val == "false" }
		case u.Info()&types.IsInteger != 0:
			l := r.addInt(v.T, t)
			tn := r.typeName(t)
			return func() (string, bool) {
				if _, err := strconv.ParseInt(l.val, 10, 64); err != nil {
					if _, err2 := strconv.ParseUint(l.val, 10, 64); err2 != nil {
						return "", false
					}
				}
				return fmt.Sprintf("%s(%s)", tn, l.val), true
			}
		}
		r.bad = "parameter of type " + t.String() + " cannot be built from the model"
		return nil
	case *types.Array:
		if !isIntKind(u.Elem()) || u.Len() > replayMaxElems {
			r.bad = "array of " + u.Elem().String()
			return nil
		}
		sortA := vc.sortOf(t)
		var ls []*leaf
		for k := int64(0); k < u.Len(); k++ {
			ls = append(ls, r.addInt(fmt.Sprintf("(at_%s %s %d)", sortA, v.T, k), u.Elem()))
		}
		tn := r.typeName(t)
		return func() (string, bool) {
			var parts []string
			for _, l := range ls {
				parts = append(parts, l.val)
			}
			return fmt.Sprintf("%s{%s}", tn, strings.Join(parts, ", ")), true
		}
	case *types.Slice:
		if !isIntKind(u.Elem()) || v.Sl == nil {
			r.bad = "slice of " + u.Elem().String()
			return nil
		}
		ln, arr := r.add(v.Sl.Len), r.add(v.Sl.Arr)
		row := fmt.Sprintf("(select %s %s)", get(vc.elemComp(u.Elem())), v.Sl.Arr)
		var ls []*leaf
		nEl := r.sliceLen(v.Sl.Len)
		for k := 0; k < nEl; k++ {
			ls = append(ls, r.addInt(fmt.Sprintf("(select %s %s)", row, addT(v.Sl.Off, strconv.Itoa(k))), u.Elem()))
		}
		tn := r.typeName(t)
		return func() (string, bool) {
			n, err := strconv.Atoi(ln.val)
			if err != nil || n != nEl {
				return "", false
			}
			if arr.val == "0" && n == 0 {
				return tn + "(nil)", true
			}
			var parts []string
			for k := 0; k < n; k++ {
				parts = append(parts, ls[k].val)
			}
			return fmt.Sprintf("%s{%s}", tn, strings.Join(parts, ", ")), true
		}
	case *types.Struct:
		type fb struct {
			name string
			b    func() (string, bool)
		}
		var fbs []fb
		for i := 0; i < u.NumFields(); i++ {
			ft := u.Field(i).Type()
			if !r.supported(ft) {
				r.partial = append(r.partial, fmt.Sprintf("field %s of %s (%s) left zero", u.Field(i).Name(), t.String(), ft.String()))
				continue
			}
			term, _ := vc.project(v.T, t, []Step{{Field: i}})
			fv := vc.termVal(term, ft)
			if b := r.builder(fv, ft, st); b != nil {
				fbs = append(fbs, fb{u.Field(i).Name(), b})
			}
		}
		tn := r.typeName(t)
		return func() (string, bool) {
			var parts []string
			for _, f := range fbs {
				s, ok := f.b()
				if !ok {
					return "", false
				}
				parts = append(parts, f.name+": "+s)
			}
			return fmt.Sprintf("%s{%s}", tn, strings.Join(parts, ", ")), true
		}
	case *types.Pointer:
		sT, ok := isStruct(u.Elem())
		if !ok {
			r.bad = "pointer to " + u.Elem().String()
			return nil
		}
		ref := r.add(v.T)
		type fb struct {
			name string
			b    func() (string, bool)
		}
		var fbs []fb
		for i := 0; i < sT.NumFields(); i++ {
			ft := sT.Field(i).Type()
			if !r.supported(ft) {
				r.partial = append(r.partial, fmt.Sprintf("field %s of %s (%s) left zero", sT.Field(i).Name(), u.Elem().String(), ft.String()))
				continue
			}
			term := fmt.Sprintf("(select %s %s)", get(vc.fieldComp(u.Elem(), i)), v.T)
			fv := vc.termVal(term, ft)
			if b := r.builder(fv, ft, st); b != nil {
				fbs = append(fbs, fb{sT.Field(i).Name(), b})
			}
		}
		tn := r.typeName(u.Elem())
		return func() (string, bool) {
			if ref.val == "0" {
				return "nil", true
			}
			var parts []string
			for _, f := range fbs {
				s, ok := f.b()
				if !ok {
					return "", false
				}
				parts = append(parts, f.name+": "+s)
			}
			return fmt.Sprintf("&%s{%s}", tn, strings.Join(parts, ", ")), true
		}
	case *types.Interface:
		if types.Identical(t, errorType) {
			l := r.add(v.T)
			r.imports["errors"] = "errors"
			return func() (string, bool) {
				if l.val == "0" {
					return "error(nil)", true
				}
				return `errors.New("govc-replay")`, true
			}
		}
		if n, ok := types.Unalias(t).(*types.Named); ok && n.Obj().Pkg() != nil && n.Obj().Pkg().Path() == "context" && n.Obj().Name() == "Context" {
			r.imports["context"] = "context"
			return func() (string, bool) { return "context.Background()", true }
		}
	}
	r.bad = "value of type " + t.String() + " cannot be built from the model"
	return nil
}

func (r *replayer) supported(t types.Type) bool {
	switch u := t.Underlying().(type) {
	case *types.Basic:
		return u.Info()&(types.IsBoolean|types.IsInteger) != 0
	case *types.Array:
		return isIntKind(u.Elem()) && u.Len() <= replayMaxElems
	case *types.Slice:
		return isIntKind(u.Elem())
	case *types.Struct:
		for i := 0; i < u.NumFields(); i++ {
			if !r.supported(u.Field(i).Type()) {
				return false
			}
		}
		return true
	}
	return false
}

// printer emits Go statements printing a value as "GOVC-R <n>" lines (one scalar per line, in leaf order of the expectation).
func (r *replayer) printer(expr string, t types.Type, out *[]string) bool {
	switch u := t.Underlying().(type) {
	case *types.Basic:
		if u.Info()&types.IsBoolean != 0 || u.Info()&types.IsInteger != 0 {
			*out = append(*out, fmt.Sprintf(`fmt.Println("GOVC-R", %s)`, expr))
			return true
		}
	case *types.Array:
		if isIntKind(u.Elem()) && u.Len() <= replayMaxElems {
			for k := int64(0); k < u.Len(); k++ {
				*out = append(*out, fmt.Sprintf(`fmt.Println("GOVC-R", %s[%d])`, expr, k))
			}
			return true
		}
	case *types.Slice:
		if isIntKind(u.Elem()) {
			*out = append(*out, fmt.Sprintf(`fmt.Println("GOVC-R", len(%s))`, expr))
			*out = append(*out, fmt.Sprintf(`for _, govcE := range %s { fmt.Println("GOVC-R", govcE) }`, expr))
			return true
		}
	case *types.Struct:
		for i := 0; i < u.NumFields(); i++ {
			if !r.supported(u.Field(i).Type()) {
				continue
			}
			if !r.printer(expr+"."+u.Field(i).Name(), u.Field(i).Type(), out) {
				return false
			}
		}
		return true
	case *types.Interface:
		if types.Identical(t, errorType) {
			*out = append(*out, fmt.Sprintf(`fmt.Println("GOVC-R", %s != nil)`, expr))
			return true
		}
	}
	return false
}

// expectation lists the model's values in the order printer prints them.
func (r *replayer) expectation(v Val, t types.Type, st *State) func() ([]string, bool) {
	vc := r.vc
	switch u := t.Underlying().(type) {
	case *types.Basic:
		l := r.add(v.T)
		return func() ([]string, bool) { return []string{l.val}, true }
	case *types.Array:
		sortA := vc.sortOf(t)
		var ls []*leaf
		for k := int64(0); k < u.Len(); k++ {
			ls = append(ls, r.addInt(fmt.Sprintf("(at_%s %s %d)", sortA, v.T, k), u.Elem()))
		}
		return func() ([]string, bool) {
			var o []string
			for _, l := range ls {
				o = append(o, l.val)
			}
			return o, true
		}
	case *types.Slice:
		if v.Sl == nil {
			return nil
		}
		ln := r.add(v.Sl.Len)
		row := fmt.Sprintf("(select %s %s)", vc.get(st, vc.elemComp(u.Elem())), v.Sl.Arr)
		var ls []*leaf
		nEl := r.sliceLen(v.Sl.Len)
		for k := 0; k < nEl; k++ {
			ls = append(ls, r.addInt(fmt.Sprintf("(select %s %s)", row, addT(v.Sl.Off, strconv.Itoa(k))), u.Elem()))
		}
		return func() ([]string, bool) {
			n, err := strconv.Atoi(ln.val)
			if err != nil || n != nEl {
				return nil, false
			}
			o := []string{ln.val}
			for k := 0; k < n; k++ {
				o = append(o, ls[k].val)
			}
			return o, true
		}
	case *types.Struct:
		var fs []func() ([]string, bool)
		for i := 0; i < u.NumFields(); i++ {
			ft := u.Field(i).Type()
			if !r.supported(ft) {
				continue
			}
			term, _ := vc.project(v.T, t, []Step{{Field: i}})
			f := r.expectation(vc.termVal(term, ft), ft, st)
			if f == nil {
				return nil
			}
			fs = append(fs, f)
		}
		return func() ([]string, bool) {
			var o []string
			for _, f := range fs {
				p, ok := f()
				if !ok {
					return nil, false
				}
				o = append(o, p...)
			}
			return o, true
		}
	case *types.Interface:
		if types.Identical(t, errorType) {
			l := r.add(v.T)
			return func() ([]string, bool) {
				if l.val == "0" {
					return []string{"false"}, true
				}
				return []string{"true"}, true
			}
		}
	}
	return nil
}

// tryReplay returns "confirmed", "not-confirmed" or "" (not replayable); details go into rec.
func tryReplay(eng *Engine, verif, prop string, it *solveItem, rec map[string]any) string {
	vc, o := it.vc, it.o
	fn := vc.fn
	skip := func(why string) string {
		rec["replay"] = "not replayable: " + why
		return ""
	}
	if fn == nil || fn.Parent() != nil {
		return skip("not a top-level function")
	}
	if fn.TypeParams().Len() > 0 || (fn.Signature.Recv() != nil && strings.Contains(fn.Signature.Recv().Type().String(), "[")) {
		return skip("generic function")
	}
	kindSafe := o.Kind == "safe"
	if !kindSafe && o.Kind != "ensures" {
		return skip("only postconditions and safety obligations are replayed (this is a " + o.Kind + " obligation)")
	}
	pkg := fnPkg(fn)
	if pkg == nil {
		return skip("no package")
	}
	params := fn.Params
	if len(vc.replayParams) != len(params) {
		return skip("parameters not recorded")
	}
	sig := fn.Signature
	if !kindSafe && (vc.replayExit == nil || len(vc.replayResults) != sig.Results().Len()) {
		return skip("results not recorded")
	}
	var r *replayer
	var argBuilders []func() (string, bool)
	var expects []func() ([]string, bool)
	var printStmts []string
	construct := func(phase int, lens []int) string {
		r = &replayer{vc: vc, pkg: pkg, imports: map[string]string{"fmt": "fmt", "testing": "testing"}, phase: phase, lenVals: lens}
		argBuilders, expects, printStmts = nil, nil, nil
		for i, p := range params {
			b := r.builder(vc.replayParams[i], p.Type(), nil)
			if b == nil {
				return r.bad
			}
			argBuilders = append(argBuilders, b)
		}
		if kindSafe {
			return ""
		}
		// expected outputs (postconditions only): results and the final contents of slice parameters
		for i := 0; i < sig.Results().Len(); i++ {
			t := sig.Results().At(i).Type()
			if !r.printer(fmt.Sprintf("govcRes%d", i), t, &printStmts) {
				return "result of type " + t.String() + " cannot be compared"
			}
			e := r.expectation(vc.replayResults[i], t, vc.replayExit)
			if e == nil {
				return "result of type " + t.String() + " cannot be read from the model"
			}
			expects = append(expects, e)
		}
		for i, p := range params {
			if _, isSl := p.Type().Underlying().(*types.Slice); isSl && vc.replayParams[i].Sl != nil {
				if r.printer(fmt.Sprintf("govcArg%d", i), p.Type(), &printStmts) {
					if e := r.expectation(vc.replayParams[i], p.Type(), vc.replayExit); e != nil {
						expects = append(expects, e)
					}
				}
			}
		}
		return ""
	}
	tmp, err := os.MkdirTemp("/var/tmp", "govc-replay-")
	if err != nil {
		return skip("tmp dir: " + err.Error())
	}
	if os.Getenv("GOVC_DBG") == "" {
		defer os.RemoveAll(tmp)
	}
	base := strings.TrimSuffix(strings.TrimSpace(vc.query(o)), "(get-model)")
	base = strings.TrimSuffix(strings.TrimSpace(base), "(check-sat)")
	ask := func(pins []string, terms []string) ([]string, string) {
		q := base + "\n" + strings.Join(pins, "\n") + "\n(check-sat)\n(get-value (" + strings.Join(terms, "\n ") + "))\n"
		qf := filepath.Join(tmp, "q.smt2")
		os.WriteFile(qf, []byte(q), 0o644)
		ctx, cancel := context.WithTimeout(context.Background(), 70*time.Second)
		defer cancel()
		out, _ := exec.CommandContext(ctx, "z3-new", "-T:60", qf).CombinedOutput()
		text := string(out)
		if !strings.HasPrefix(strings.TrimSpace(text), "sat") {
			return nil, "the model could not be re-queried (" + strings.SplitN(strings.TrimSpace(text), "\n", 2)[0] + ")"
		}
		vals, ok := parseGetValue(text[strings.Index(text, "sat")+3:])
		if !ok || len(vals) != len(terms) {
			return nil, "could not parse the model values"
		}
		return vals, ""
	}
	// phase 1: slice lengths only
	if why := construct(1, nil); why != "" {
		return skip(why)
	}
	var lens []int
	var pins []string
	if len(r.lenTerms) > 0 {
		// prefer a small counterexample: lengths up to 64 first, then up to replayMaxSlice
		var vals []string
		why := ""
		for _, bound := range []int{64, replayMaxSlice} {
			var bnd []string
			for _, t := range r.lenTerms {
				bnd = append(bnd, fmt.Sprintf("(assert (<= %s %d))", t, bound))
			}
			if vals, why = ask(bnd, r.lenTerms); why == "" {
				break
			}
		}
		if why != "" {
			return skip("no counterexample with slice lengths up to " + strconv.Itoa(replayMaxSlice) + ": " + why)
		}
		for i, v := range vals {
			n, err := strconv.Atoi(v)
			if err != nil || n < 0 || n > replayMaxSlice {
				return skip("a slice length in the model (" + v + ") is outside what a test can build")
			}
			lens = append(lens, n)
			pins = append(pins, fmt.Sprintf("(assert (= %s %d))", r.lenTerms[i], n))
		}
	}
	// phase 2: everything, with the lengths pinned
	if why := construct(2, lens); why != "" {
		return skip(why)
	}
	var terms []string
	for _, l := range r.leaves {
		terms = append(terms, l.term)
	}
	if len(terms) == 0 {
		terms = []string{"true"}
	}
	vals, why := ask(append(pins, r.pins...), terms)
	if why != "" {
		return skip(why)
	}
	for i, l := range r.leaves {
		l.val = vals[i]
	}
	var args []string
	for _, b := range argBuilders {
		s, ok := b()
		if !ok {
			return skip("a model value is outside what a test can build (non-integer value or inconsistent length)")
		}
		args = append(args, s)
	}
	var expected []string
	for _, e := range expects {
		p, ok := e()
		if !ok {
			return skip("a model result is outside what a test can compare")
		}
		expected = append(expected, p...)
	}
	// the test
	call := ""
	var decls []string
	for i, a := range args {
		decls = append(decls, fmt.Sprintf("govcArg%d := %s", i, a))
	}
	var argNames []string
	for i := range args {
		argNames = append(argNames, fmt.Sprintf("govcArg%d", i))
	}
	if fn.Signature.Recv() != nil {
		call = fmt.Sprintf("govcArg0.%s(%s)", fn.Name(), strings.Join(argNames[1:], ", "))
	} else {
		call = fmt.Sprintf("%s(%s)", fn.Name(), strings.Join(argNames, ", "))
	}
	var resNames []string
	for i := 0; i < sig.Results().Len(); i++ {
		resNames = append(resNames, fmt.Sprintf("govcRes%d", i))
	}
	var body bytes.Buffer
	body.WriteString("package " + pkg.Name() + "\n\nimport (\n")
	var imps []string
	for p := range r.imports {
		imps = append(imps, p)
	}
	sort.Strings(imps)
	for _, p := range imps {
		body.WriteString(fmt.Sprintf("\t%s %q\n", r.imports[p], p))
	}
	body.WriteString(")\n\n// generated by govc from the solver's counterexample for " + o.Name + "\n")
	body.WriteString("func TestZZGovcReplay(t *testing.T) {\n\tdefer func() {\n\t\tif r := recover(); r != nil {\n\t\t\tfmt.Println(\"GOVC-PANIC\", r)\n\t\t}\n\t}()\n")
	for _, d := range decls {
		body.WriteString("\t" + d + "\n")
	}
	if len(resNames) > 0 {
		body.WriteString("\t" + strings.Join(resNames, ", ") + " := " + call + "\n")
		for _, n := range resNames {
			body.WriteString("\t_ = " + n + "\n")
		}
	} else {
		body.WriteString("\t" + call + "\n")
	}
	for _, n := range argNames {
		body.WriteString("\t_ = " + n + "\n")
	}
	body.WriteString("\tfmt.Println(\"GOVC-RETURNED\")\n")
	for _, s := range printStmts {
		body.WriteString("\t" + s + "\n")
	}
	body.WriteString("}\n")
	// run it against the real package
	pkgDir := ""
	for _, p := range eng.pkgs {
		if p.Types == pkg && len(p.GoFiles) > 0 {
			pkgDir = filepath.Dir(p.GoFiles[0])
		}
	}
	if pkgDir == "" {
		for _, sp := range eng.prog.AllPackages() {
			if sp.Pkg == pkg {
				if f := eng.fset.File(fn.Pos()); f != nil {
					pkgDir = filepath.Dir(f.Name())
				}
			}
		}
	}
	if pkgDir == "" {
		return skip("package directory not found")
	}
	testFile := filepath.Join(tmp, "zz_govc_replay_test.go")
	os.WriteFile(testFile, body.Bytes(), 0o644)
	ov := filepath.Join(tmp, "overlay.json")
	os.WriteFile(ov, []byte(fmt.Sprintf(`{"Replace": {%q: %q}}`, filepath.Join(pkgDir, "zz_govc_replay_test.go"), testFile)), 0o644)
	ctx2, cancel2 := context.WithTimeout(context.Background(), 170*time.Second)
	defer cancel2()
	cmd := exec.CommandContext(ctx2, "go", "test", "-overlay", ov, "-vet=off", "-v", "-count=1", "-timeout", "60s", "-run", "^TestZZGovcReplay$", ".")
	cmd.Dir = pkgDir
	cmd.Env = append(os.Environ(), "GOFLAGS=", "GOPROXY=off")
	tout, _ := cmd.CombinedOutput()
	rec["replay_test"] = body.String()
	rec["replay_output"] = truncate(string(tout), 6000)
	var got []string
	panicked, returned := false, false
	for _, line := range strings.Split(string(tout), "\n") {
		switch {
		case strings.HasPrefix(line, "GOVC-PANIC"):
			panicked = true
		case strings.HasPrefix(line, "GOVC-RETURNED"):
			returned = true
		case strings.HasPrefix(line, "GOVC-R "):
			got = append(got, strings.TrimSpace(strings.TrimPrefix(line, "GOVC-R ")))
		}
	}
	if len(r.partial) > 0 {
		rec["replay_partial_objects"] = r.partial
	}
	if kindSafe {
		if panicked {
			rec["replay"] = "confirmed: the real function panics on the counterexample input"
			return "confirmed"
		}
		rec["replay"] = "not confirmed: the real function did not panic on the model's input (the model may rely on an abstraction)"
		return "not-confirmed"
	}
	if !returned {
		rec["replay"] = "not confirmed: the replay test did not run to completion"
		return "not-confirmed"
	}
	rec["replay_expected"] = expected
	rec["replay_observed"] = got
	if len(got) == len(expected) {
		same := true
		for i := range got {
			if !sameScalar(got[i], expected[i]) {
				same = false
			}
		}
		if same {
			rec["replay"] = "confirmed: on the counterexample input the real function returns exactly what the model says (results and final slice contents), so the violating execution is real"
			return "confirmed"
		}
	}
	rec["replay"] = "not confirmed: the real function's outputs differ from the model's (the model relies on an abstraction of a callee or of the heap)"
	return "not-confirmed"
}

func sameScalar(a, b string) bool {
	if a == b {
		return true
	}
	x, e1 := strconv.ParseInt(a, 10, 64)
	y, e2 := strconv.ParseInt(b, 10, 64)
	if e1 == nil && e2 == nil {
		return x == y
	}
	ux, e3 := strconv.ParseUint(a, 10, 64)
	uy, e4 := strconv.ParseUint(b, 10, 64)
	return e3 == nil && e4 == nil && ux == uy
}

// parseGetValue parses "((t1 v1) (t2 v2) ...)" into the list of values (ints as decimal strings, booleans).
func parseGetValue(s string) ([]string, bool) {
	s = strings.TrimSpace(s)
	if !strings.HasPrefix(s, "(") {
		return nil, false
	}
	outer := splitSexp(s)
	if len(outer) == 0 {
		return nil, false
	}
	inner := outer[0]
	pairs := splitSexp(inner[1 : len(inner)-1])
	var vals []string
	for _, p := range pairs {
		parts := splitSexp(p[1 : len(p)-1])
		if len(parts) < 2 {
			return nil, false
		}
		v := parts[len(parts)-1]
		v = strings.TrimSpace(v)
		if strings.HasPrefix(v, "(-") {
			v = "-" + strings.TrimSpace(strings.TrimSuffix(strings.TrimPrefix(v, "(-"), ")"))
		}
		vals = append(vals, v)
	}
	return vals, true
}

// cmdModset prints the computed (flow-insensitive, transitive) modification set of a function: debugging aid.
func cmdModset(args []string) {
	pkg, name := args[0], args[1]
	eng, err := NewEngine("/repo", "/verif", []string{pkg})
	if err != nil {
		println(err.Error())
		return
	}
	fn := eng.findFunc(&FuncSpec{Pkg: pkg, Name: name})
	if fn == nil {
		println("not found")
		return
	}
	ms := eng.modsetOf(fn)
	println("unknown:", ms.Unknown, "allocs:", ms.Allocs)
	for k := range ms.Comps {
		println("  comp", k)
	}
	for k := range ms.Events {
		println("  event", k)
	}
}

// structuralObligations: every method of the interface that can return an error must be declared on the type itself.
func (eng *Engine) structuralObligations(s *Structural) []*Obligation {
	var out []*Obligation
	pkg := eng.pkgByPath(s.Pkg)
	mk := func(name, res, why string) *Obligation {
		return &Obligation{Name: fmt.Sprintf("%s.%s#overrides.%s", pkg.Name(), s.Type, name), Fn: pkg.Name() + "." + s.Type, Kind: "structural",
			Src: "method " + name + " of " + s.Iface + " is declared on " + s.Type + " itself (not promoted from the embedded field)", Result: res, Solver: "go/types", Model: why}
	}
	if pkg == nil {
		return []*Obligation{{Name: s.Type + "#overrides", Kind: "structural", Result: "error", Model: "package not loaded"}}
	}
	tObj, _ := pkg.Scope().Lookup(s.Type).(*types.TypeName)
	iObj, _ := pkg.Scope().Lookup(s.Iface).(*types.TypeName)
	if tObj == nil || iObj == nil {
		return []*Obligation{mk("*", "error", "type or interface not found")}
	}
	named, _ := tObj.Type().(*types.Named)
	iface, _ := iObj.Type().Underlying().(*types.Interface)
	if named == nil || iface == nil {
		return []*Obligation{mk("*", "error", "not a named type / interface")}
	}
	own := map[string]bool{}
	for i := 0; i < named.NumMethods(); i++ {
		own[named.Method(i).Name()] = true
	}
	for i := 0; i < iface.NumMethods(); i++ {
		m := iface.Method(i)
		sig := m.Type().(*types.Signature)
		hasErr := false
		for k := 0; k < sig.Results().Len(); k++ {
			if types.Identical(sig.Results().At(k).Type(), errorType) {
				hasErr = true
			}
		}
		if !hasErr {
			continue
		}
		if own[m.Name()] {
			out = append(out, mk(m.Name(), "unsat", ""))
		} else {
			out = append(out, mk(m.Name(), "sat", "counterexample: "+s.Type+" has no method "+m.Name()+" of its own; the embedded "+s.Iface+"'s method is promoted unguarded"))
		}
	}
	return out
}

// sameTypeParams reports whether an instantiation passes exactly the origin's
// type parameters (by name) as its type arguments.
func sameTypeParams(callee *ssa.Function) bool {
	o := callee.Origin()
	if o == nil {
		return true
	}
	tps := o.TypeParams()
	tas := callee.TypeArgs()
	if tps == nil || tps.Len() != len(tas) {
		return false
	}
	for i, ta := range tas {
		tp, ok := types.Unalias(ta).(*types.TypeParam)
		if !ok || tp.Obj().Name() != tps.At(i).Obj().Name() {
			return false
		}
	}
	return true
}
