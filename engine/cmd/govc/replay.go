package main

// tryReplay turns a solver model into a concrete test of the real code where a replay template exists.
// Returns "confirmed", "not-confirmed" or "" (no template).
func tryReplay(eng *Engine, verif, prop string, it *solveItem, rec map[string]any) string {
	return ""
}
