package main

import (
	"fmt"
	"go/types"

	"golang.org/x/tools/go/ssa"
)

// tryReplay turns a solver model into a concrete test of the real code where a replay template exists.
// Returns "confirmed", "not-confirmed" or "" (no template).
func tryReplay(eng *Engine, verif, prop string, it *solveItem, rec map[string]any) string {
	return ""
}

// cmdModset prints the computed (flow-insensitive, transitive) modification set of a function: debugging aid.
func cmdModset(args []string) {
	pkg, name := args[0], args[1]
	eng, err := NewEngine("/repo", "/verif", []string{pkg})
	if err != nil {
		println(err.Error())
		return
	}
	fn := eng.findFunc(&FuncSpec{Pkg: pkg, Name: name})
	if fn == nil {
		println("not found")
		return
	}
	ms := eng.modsetOf(fn)
	println("unknown:", ms.Unknown, "allocs:", ms.Allocs)
	for k := range ms.Comps {
		println("  comp", k)
	}
	for k := range ms.Events {
		println("  event", k)
	}
}

// structuralObligations: every method of the interface that can return an error must be declared on the type itself.
func (eng *Engine) structuralObligations(s *Structural) []*Obligation {
	var out []*Obligation
	pkg := eng.pkgByPath(s.Pkg)
	mk := func(name, res, why string) *Obligation {
		return &Obligation{Name: fmt.Sprintf("%s.%s#overrides.%s", pkg.Name(), s.Type, name), Fn: pkg.Name() + "." + s.Type, Kind: "structural",
			Src: "method " + name + " of " + s.Iface + " is declared on " + s.Type + " itself (not promoted from the embedded field)", Result: res, Solver: "go/types", Model: why}
	}
	if pkg == nil {
		return []*Obligation{{Name: s.Type + "#overrides", Kind: "structural", Result: "error", Model: "package not loaded"}}
	}
	tObj, _ := pkg.Scope().Lookup(s.Type).(*types.TypeName)
	iObj, _ := pkg.Scope().Lookup(s.Iface).(*types.TypeName)
	if tObj == nil || iObj == nil {
		return []*Obligation{mk("*", "error", "type or interface not found")}
	}
	named, _ := tObj.Type().(*types.Named)
	iface, _ := iObj.Type().Underlying().(*types.Interface)
	if named == nil || iface == nil {
		return []*Obligation{mk("*", "error", "not a named type / interface")}
	}
	own := map[string]bool{}
	for i := 0; i < named.NumMethods(); i++ {
		own[named.Method(i).Name()] = true
	}
	for i := 0; i < iface.NumMethods(); i++ {
		m := iface.Method(i)
		sig := m.Type().(*types.Signature)
		hasErr := false
		for k := 0; k < sig.Results().Len(); k++ {
			if types.Identical(sig.Results().At(k).Type(), errorType) {
				hasErr = true
			}
		}
		if !hasErr {
			continue
		}
		if own[m.Name()] {
			out = append(out, mk(m.Name(), "unsat", ""))
		} else {
			out = append(out, mk(m.Name(), "sat", "counterexample: "+s.Type+" has no method "+m.Name()+" of its own; the embedded "+s.Iface+"'s method is promoted unguarded"))
		}
	}
	return out
}

// sameTypeParams reports whether an instantiation passes exactly the origin's
// type parameters (by name) as its type arguments.
func sameTypeParams(callee *ssa.Function) bool {
	o := callee.Origin()
	if o == nil {
		return true
	}
	tps := o.TypeParams()
	tas := callee.TypeArgs()
	if tps == nil || tps.Len() != len(tas) {
		return false
	}
	for i, ta := range tas {
		tp, ok := types.Unalias(ta).(*types.TypeParam)
		if !ok || tp.Obj().Name() != tps.At(i).Obj().Name() {
			return false
		}
	}
	return true
}
