package main

import (
	"fmt"
	"go/constant"
	"go/types"
	"strconv"
	"strings"
)

type SpecEnv struct {
	vc    *VC
	fr    *Frame
	pkg   *types.Package
	vars  map[string]Val
	st    *State
	old   *State
	depth int
	targs map[string]types.Type // type arguments of the generic callee whose contract is being applied
	cur   bool // built by specEnvCur: source-level locals shadow the parameters' entry values
}

func (vc *VC) specEnv(fr *Frame, st, old *State, extra map[string]Val) *SpecEnv {
	env := &SpecEnv{vc: vc, fr: fr, st: st, old: old, vars: map[string]Val{}}
	if fr != nil {
		if fr.fn.Pkg != nil {
			env.pkg = fr.fn.Pkg.Pkg
		} else if fr.fn.Origin() != nil && fr.fn.Origin().Pkg != nil {
			env.pkg = fr.fn.Origin().Pkg.Pkg
		}
		for k, v := range st.locals {
			if v.Sort == "addr" && v.Addr != nil {
				lv := vc.load(st, v.Addr)
				env.vars[k] = lv
				continue
			}
			env.vars[k] = v
		}
		for k, v := range fr.params {
			env.vars[k] = v
		}
		for k, v := range fr.idxVals {
			env.vars[k] = v
		}
	}
	for k, v := range extra {
		env.vars[k] = v
	}
	return env
}

// specEnvCur: like specEnv, but source-level locals (current values of reassigned parameters included)
// take precedence over the entry values of parameters. Used for loop invariants and call-site assertions.
func (vc *VC) specEnvCur(fr *Frame, st, old *State, extra map[string]Val) *SpecEnv {
	env := vc.specEnv(fr, st, old, nil)
	if fr != nil {
		for k, v := range st.locals {
			if v.Sort == "addr" && v.Addr != nil {
				env.vars[k] = vc.load(st, v.Addr)
				continue
			}
			env.vars[k] = v
		}
	}
	for k, v := range extra {
		env.vars[k] = v
	}
	env.cur = true
	return env
}

func (e *SpecEnv) with(name string, v Val) *SpecEnv {
	n := *e
	n.vars = make(map[string]Val, len(e.vars)+1)
	for k, x := range e.vars {
		n.vars[k] = x
	}
	n.vars[name] = v
	return &n
}

func (e *SpecEnv) inOld() *SpecEnv {
	n := *e
	n.st = e.old
	if e.cur && e.fr != nil && len(e.fr.params) > 0 {
		// old(p) of a parameter that the body reassigns is the value it had on entry, not the current binding
		n.vars = make(map[string]Val, len(e.vars))
		for k, x := range e.vars {
			n.vars[k] = x
		}
		for k, v := range e.fr.params {
			n.vars[k] = v
		}
		n.cur = false
	}
	return &n
}

func (vc *VC) specErr(f string, a ...any) {
	vc.fatalf("spec: "+f, a...)
}

func boolVal(t string) Val { return Val{T: t, Typ: types.Typ[types.Bool]} }
func intVal(t string) Val  { return Val{T: t, Typ: types.Typ[types.Int]} }

func (vc *VC) trBool(env *SpecEnv, e Expr) string {
	v := vc.trExpr(env, e)
	if v.T == "" {
		vc.specErr("expression %s is not boolean", e)
		return "true"
	}
	return v.T
}

func isNilIdent(e Expr) bool {
	id, ok := e.(*EIdent)
	return ok && id.Name == "nil"
}

func (vc *VC) trExpr(env *SpecEnv, e Expr) Val {
	switch x := e.(type) {
	case *ENum:
		n, err := strconv.ParseInt(x.V, 0, 64)
		if err != nil {
			u, err2 := strconv.ParseUint(x.V, 0, 64)
			if err2 != nil {
				if isLiteralInt(x.V) { // beyond 64 bits: mathematical integers have no bound
					return intVal(x.V)
				}
				vc.specErr("bad number %s", x.V)
				return intVal("0")
			}
			return intVal(strconv.FormatUint(u, 10))
		}
		return intVal(smtInt(n))
	case *EStr:
		return Val{T: smtStr(x.V), Typ: types.Typ[types.String]}
	case *EParen:
		return vc.trExpr(env, x.X)
	case *EIdent:
		return vc.trIdent(env, x.Name)
	case *EUn:
		switch x.Op {
		case "!":
			return boolVal(fmt.Sprintf("(not %s)", vc.trBool(env, x.X)))
		case "-":
			v := vc.trExpr(env, x.X)
			return Val{T: fmt.Sprintf("(- %s)", v.T), Typ: v.Typ}
		case "*":
			v := vc.trExpr(env, x.X)
			if v.Typ == nil {
				vc.specErr("deref of untyped %s", x.X)
				return intVal("0")
			}
			if _, ok := v.Typ.Underlying().(*types.Pointer); !ok {
				vc.specErr("deref of non-pointer %s", x.X)
				return intVal("0")
			}
			r := vc.load(env.st, vc.addrOfPtr(v))
			return r
		}
	case *EBin:
		return vc.trBin(env, x)
	case *ECond:
		c := vc.trBool(env, x.C)
		a, b := vc.trExpr(env, x.A), vc.trExpr(env, x.B)
		if a.Sl != nil || b.Sl != nil {
			vc.specErr("conditional over slices unsupported")
			return a
		}
		return Val{T: fmt.Sprintf("(ite %s %s %s)", c, vc.valTerm(a), vc.valTerm(b)), Typ: pickType(a, b), Sort: a.Sort}
	case *EQuant:
		return vc.trQuant(env, x)
	case *ESel:
		return vc.trSel(env, x)
	case *EIndex:
		return vc.trIndex(env, x)
	case *ESlice:
		base := vc.trExpr(env, x.X)
		if base.Sl == nil {
			vc.specErr("slice expression on non-slice %s", x.X)
			return base
		}
		lo, hi := "0", base.Sl.Len
		if x.Lo != nil {
			lo = vc.trExpr(env, x.Lo).T
		}
		if x.Hi != nil {
			hi = vc.trExpr(env, x.Hi).T
		}
		return Val{Sl: &SliceVal{base.Sl.Arr, addT(base.Sl.Off, lo), subT(hi, lo), subT(base.Sl.Cap, lo)}, Typ: base.Typ}
	case *ECall:
		return vc.trCall(env, x)
	case *ETypeAssert:
		v := vc.trExpr(env, x.X)
		t := vc.resolveType(env, x.Typ)
		if t == nil {
			return v
		}
		if _, isIface := t.Underlying().(*types.Interface); isIface {
			return Val{T: v.T, Typ: t}
		}
		_, unbox := vc.boxFns(t)
		return vc.termVal(fmt.Sprintf("(%s %s)", unbox, v.T), t)
	}
	vc.specErr("unsupported expression %s", e)
	return intVal("0")
}

func pickType(a, b Val) types.Type {
	if a.Typ != nil {
		return a.Typ
	}
	return b.Typ
}

func (vc *VC) ghostComp(env *SpecEnv, name string) (string, *GlobalGhost) {
	g, ok := vc.eng.specs.Ghosts[name]
	if !ok {
		return "", nil
	}
	sort := vc.ghostSort(env, g.Typ)
	return vc.comp("ghost."+name, sort), g
}

// ghostSort: SMT sort of a ghost variable type; map[K]V becomes a total array.
func (vc *VC) ghostSort(env *SpecEnv, typ string) string {
	if strings.HasPrefix(typ, "map[") {
		k, v := splitMapType(typ)
		return fmt.Sprintf("(Array %s %s)", vc.ghostSort(env, k), vc.ghostSort(env, v))
	}
	t := vc.resolveType(env, typ)
	if t == nil {
		return "Int"
	}
	return vc.sortOf(t)
}

func splitMapType(typ string) (string, string) {
	depth := 0
	for i := 3; i < len(typ); i++ {
		if typ[i] == '[' {
			depth++
		}
		if typ[i] == ']' {
			depth--
			if depth == 0 {
				return typ[4:i], typ[i+1:]
			}
		}
	}
	return "int", "int"
}

func (vc *VC) resolveType(env *SpecEnv, name string) types.Type {
	name = strings.TrimSpace(name)
	switch name {
	case "int":
		return types.Typ[types.Int]
	case "int64":
		return types.Typ[types.Int64]
	case "int32":
		return types.Typ[types.Int32]
	case "uint64":
		return types.Typ[types.Uint64]
	case "uint32":
		return types.Typ[types.Uint32]
	case "byte", "uint8":
		return types.Typ[types.Uint8]
	case "bool":
		return types.Typ[types.Bool]
	case "string":
		return types.Typ[types.String]
	case "any":
		return types.NewInterfaceType(nil, nil)
	case "error":
		return errorType
	case "ref":
		return types.NewPointer(types.NewStruct(nil, nil))
	}
	if obj, ok := types.Universe.Lookup(name).(*types.TypeName); ok { // int8, uint16, float64, uintptr, ...
		return obj.Type()
	}
	if strings.HasPrefix(name, "*") {
		if t := vc.resolveType(env, name[1:]); t != nil {
			return types.NewPointer(t)
		}
		return nil
	}
	if strings.HasPrefix(name, "[]") {
		if t := vc.resolveType(env, name[2:]); t != nil {
			return types.NewSlice(t)
		}
		return nil
	}
	if strings.HasPrefix(name, "[") {
		k := strings.Index(name, "]")
		n, err := strconv.Atoi(name[1:k])
		if err == nil {
			if t := vc.resolveType(env, name[k+1:]); t != nil {
				return types.NewArray(t, int64(n))
			}
		}
		return nil
	}
	if strings.HasPrefix(name, "map[") {
		k, v := splitMapType(name)
		kt, vt := vc.resolveType(env, k), vc.resolveType(env, v)
		if kt != nil && vt != nil {
			return types.NewMap(kt, vt)
		}
		return nil
	}
	// generic instantiation: Name[Arg1,Arg2]
	if k := strings.Index(name, "["); k > 0 && strings.HasSuffix(name, "]") {
		gen := vc.resolveType(env, name[:k])
		if gen == nil {
			return nil
		}
		var targs []types.Type
		for _, a := range splitTop(name[k+1:len(name)-1], ',') {
			at := vc.resolveType(env, a)
			if at == nil {
				return nil
			}
			targs = append(targs, at)
		}
		inst, err := types.Instantiate(nil, gen, targs, false)
		if err != nil {
			vc.specErr("cannot instantiate %s: %v", name, err)
			return nil
		}
		return inst
	}
	var scope *types.Scope
	id := name
	if k := strings.Index(name, "."); k >= 0 {
		p := vc.eng.findPackage(env.pkg, name[:k])
		if p == nil {
			vc.specErr("unknown package %s in type %s", name[:k], name)
			return nil
		}
		scope = p.Scope()
		id = name[k+1:]
	} else if env.pkg != nil {
		scope = env.pkg.Scope()
	}
	if scope != nil {
		if obj := scope.Lookup(id); obj != nil {
			if tn, ok := obj.(*types.TypeName); ok {
				return tn.Type()
			}
		}
	}
	if t, ok := env.targs[id]; ok && !strings.Contains(name, ".") {
		return t
	}
	// type parameter of the current function's receiver
	if env.fr != nil {
		for f := env.fr.fn; f != nil; f = f.Parent() {
			if tp := findTypeParam(f.Signature, id); tp != nil {
				return tp
			}
		}
		// the function under verification (when evaluating inside an inlined helper)
		if vc.fn != nil {
			for f := vc.fn; f != nil; f = f.Parent() {
				if tp := findTypeParam(f.Signature, id); tp != nil {
					return tp
				}
			}
		}
	}
	vc.specErr("unknown type %s", name)
	return nil
}

func findTypeParam(sig *types.Signature, name string) types.Type {
	check := func(l *types.TypeParamList) types.Type {
		if l == nil {
			return nil
		}
		for i := 0; i < l.Len(); i++ {
			if l.At(i).Obj().Name() == name {
				return l.At(i)
			}
		}
		return nil
	}
	if t := check(sig.TypeParams()); t != nil {
		return t
	}
	return check(sig.RecvTypeParams())
}

func (vc *VC) trIdent(env *SpecEnv, name string) Val {
	if v, ok := env.vars[name]; ok {
		return v
	}
	switch name {
	case "nil":
		return Val{T: "0"}
	case "true", "false":
		return boolVal(name)
	}
	if c, g := vc.ghostComp(env, name); g != nil {
		sort := vc.compSort[c]
		term := vc.get(env.st, c)
		v := Val{T: term, Sort: sort}
		if strings.HasPrefix(g.Typ, "map[") {
			_, vt := splitMapType(g.Typ)
			kt, _ := splitMapType(g.Typ)
			v.Typ = &ghostMapType{K: vc.resolveTypeQuiet(env, kt), V: vc.resolveTypeQuiet(env, vt), VS: vt}
		} else {
			v.Typ = vc.resolveType(env, g.Typ)
			if v.Typ != nil {
				return vc.termVal(term, v.Typ)
			}
		}
		return v
	}
	if env.pkg != nil {
		if v, ok := vc.pkgObject(env, env.pkg, name); ok {
			return v
		}
	}
	// a local variable of the function that is not in scope on this path (e.g. declared after an early return):
	// an arbitrary value of its type; clauses must guard such uses themselves
	if t, ok := vc.localTypes[name]; ok && env.st != nil {
		return vc.freshVal(&State{pc: "true", heap: map[string]string{}}, t, "outofscope."+name)
	}
	vc.specErr("unknown identifier %s", name)
	return intVal("0")
}

func (vc *VC) resolveTypeQuiet(env *SpecEnv, name string) types.Type {
	if strings.HasPrefix(name, "map[") {
		return nil
	}
	return vc.resolveType(env, name)
}

// ghostMapType marks spec-level total maps (SMT arrays).
type ghostMapType struct {
	K, V types.Type
	VS   string
}

func (g *ghostMapType) Underlying() types.Type { return g }
func (g *ghostMapType) String() string         { return "ghostmap" }

func (vc *VC) pkgObject(env *SpecEnv, pkg *types.Package, name string) (Val, bool) {
	obj := pkg.Scope().Lookup(name)
	if obj == nil {
		return Val{}, false
	}
	switch o := obj.(type) {
	case *types.Const:
		t := o.Type()
		switch o.Val().Kind() {
		case constant.Int:
			s := o.Val().ExactString()
			if strings.HasPrefix(s, "-") {
				s = "(- " + s[1:] + ")"
			}
			return Val{T: s, Typ: t}, true
		case constant.String:
			return Val{T: smtStr(constant.StringVal(o.Val())), Typ: t}, true
		case constant.Bool:
			return boolVal(fmt.Sprintf("%v", constant.BoolVal(o.Val()))), true
		}
	case *types.Var:
		key := pkg.Path() + "." + name
		if ce, ok := vc.eng.specs.Consts[key]; ok {
			cenv := *env
			cenv.pkg = pkg // the constant expression is written in the global's own package
			v := vc.trExpr(&cenv, ce)
			v.Typ = o.Type()
			return v, true
		}
		comp := vc.comp("G_"+sanitize(pkg.Name())+"."+sanitize(name), vc.sortOf(o.Type()))
		return vc.termVal(vc.get(env.st, comp), o.Type()), true
	}
	return Val{}, false
}

func (vc *VC) trSel(env *SpecEnv, x *ESel) Val {
	// package-qualified name?
	if id, ok := x.X.(*EIdent); ok {
		if _, isVar := env.vars[id.Name]; !isVar {
			if _, g := vc.ghostComp(env, id.Name); g == nil {
				if p := vc.eng.findPackage(env.pkg, id.Name); p != nil {
					if v, ok := vc.pkgObject(env, p, x.Name); ok {
						return v
					}
					vc.specErr("unknown %s.%s", id.Name, x.Name)
					return intVal("0")
				}
			}
		}
	}
	base := vc.trExpr(env, x.X)
	return vc.selectField(env, base, x.Name, x)
}

func (vc *VC) selectField(env *SpecEnv, base Val, name string, src Expr) Val {
	if base.Typ == nil {
		vc.specErr("selector on untyped value in %s", src)
		return intVal("0")
	}
	t := base.Typ
	if pt, ok := t.Underlying().(*types.Pointer); ok {
		st, ok := isStruct(pt.Elem())
		if !ok {
			vc.specErr("selector %s on pointer to non-struct", src)
			return intVal("0")
		}
		idx, path := findField(st, name)
		if idx < 0 {
			vc.specErr("no field %s in %v", name, pt.Elem())
			return intVal("0")
		}
		a := vc.addrOfPtr(base)
		na := &Addr{Kind: a.Kind, Ref: a.Ref, Typ: a.Typ, Elem: a.Elem, Comp: a.Comp, Path: append(append([]Step{}, a.Path...), path...)}
		return vc.load(env.st, na)
	}
	if st, ok := isStruct(t); ok {
		idx, path := findField(st, name)
		if idx < 0 {
			vc.specErr("no field %s in %v", name, t)
			return intVal("0")
		}
		term, ft := vc.project(base.T, t, path)
		return vc.termVal(term, ft)
	}
	vc.specErr("selector %s on %v", src, t)
	return intVal("0")
}

// findField finds a (possibly promoted through embedded structs) field path.
func findField(st *types.Struct, name string) (int, []Step) {
	for i := 0; i < st.NumFields(); i++ {
		if st.Field(i).Name() == name {
			return i, []Step{{Field: i}}
		}
	}
	for i := 0; i < st.NumFields(); i++ {
		f := st.Field(i)
		if f.Embedded() {
			if inner, ok := isStruct(f.Type()); ok {
				if j, p := findField(inner, name); j >= 0 {
					return i, append([]Step{{Field: i}}, p...)
				}
			}
		}
	}
	return -1, nil
}

func (vc *VC) trIndex(env *SpecEnv, x *EIndex) Val {
	base := vc.trExpr(env, x.X)
	idx := vc.trExpr(env, x.I)
	if base.Sl != nil {
		el := base.Typ.Underlying().(*types.Slice).Elem()
		row := fmt.Sprintf("(select %s %s)", vc.get(env.st, vc.elemComp(el)), base.Sl.Arr)
		return vc.termVal(fmt.Sprintf("(select %s %s)", row, addT(base.Sl.Off, idx.T)), el)
	}
	if gm, ok := base.Typ.(*ghostMapType); ok {
		term := fmt.Sprintf("(select %s %s)", base.T, vc.valTerm(idx))
		if gm.V != nil {
			return vc.termVal(term, gm.V)
		}
		// nested ghost map
		k, v := splitMapType(gm.VS)
		sort := vc.ghostSort(env, gm.VS)
		return Val{T: term, Sort: sort, Typ: &ghostMapType{K: vc.resolveTypeQuiet(env, k), V: vc.resolveTypeQuiet(env, v), VS: v}}
	}
	if base.Typ == nil {
		vc.specErr("index on untyped value %s", x)
		return intVal("0")
	}
	switch u := base.Typ.Underlying().(type) {
	case *types.Array:
		term, t := vc.project(base.T, base.Typ, []Step{{IsIndex: true, Index: idx.T}})
		return vc.termVal(term, t)
	case *types.Map:
		valC, _ := vc.mapComps(u)
		return vc.termVal(fmt.Sprintf("(select (select %s %s) %s)", vc.get(env.st, valC), base.T, vc.valTerm(idx)), u.Elem())
	case *types.Basic:
		return Val{T: fmt.Sprintf("(str.to_code (str.at %s %s))", base.T, idx.T), Typ: types.Typ[types.Uint8]}
	case *types.Pointer:
		if at, ok := u.Elem().Underlying().(*types.Array); ok {
			a := vc.addrOfPtr(base)
			na := &Addr{Kind: a.Kind, Ref: a.Ref, Typ: a.Typ, Elem: a.Elem, Comp: a.Comp, Path: append(append([]Step{}, a.Path...), Step{IsIndex: true, Index: idx.T})}
			_ = at
			return vc.load(env.st, na)
		}
	}
	vc.specErr("index on %v", base.Typ)
	return intVal("0")
}

func (vc *VC) trBin(env *SpecEnv, x *EBin) Val {
	switch x.Op {
	case "&&", "||", "==>", "<==>":
		l, r := vc.trBool(env, x.L), vc.trBool(env, x.R)
		op := map[string]string{"&&": "and", "||": "or", "==>": "=>", "<==>": "="}[x.Op]
		return boolVal(fmt.Sprintf("(%s %s %s)", op, l, r))
	case "==", "!=":
		l, r := vc.trExpr(env, x.L), vc.trExpr(env, x.R)
		var eq string
		if (l.T == "" && l.Sl == nil && l.Addr != nil && vc.ptrOfAddr(l.Addr) == "" && isNilIdent(x.R)) ||
			(r.T == "" && r.Sl == nil && r.Addr != nil && vc.ptrOfAddr(r.Addr) == "" && isNilIdent(x.L)) {
			// an interior pointer (address of a field / element of an existing object) is never nil
			eq = "false"
		} else if l.Sl != nil || r.Sl != nil {
			if isNilIdent(x.L) || isNilIdent(x.R) {
				s := l.Sl
				if s == nil {
					s = r.Sl
				}
				eq = fmt.Sprintf("(= %s 0)", s.Arr)
			} else if l.Sl != nil && r.Sl != nil {
				eq = fmt.Sprintf("(and (= %s %s) (= %s %s) (= %s %s))", l.Sl.Arr, r.Sl.Arr, l.Sl.Off, r.Sl.Off, l.Sl.Len, r.Sl.Len)
			} else {
				vc.specErr("comparison of slice with non-slice in %s", x)
				eq = "true"
			}
		} else {
			eq = fmt.Sprintf("(= %s %s)", vc.valTerm(l), vc.valTerm(r))
		}
		if x.Op == "!=" {
			eq = "(not " + eq + ")"
		}
		return boolVal(eq)
	case "<", "<=", ">", ">=":
		l, r := vc.trExpr(env, x.L), vc.trExpr(env, x.R)
		if l.Typ != nil {
			if b, ok := l.Typ.Underlying().(*types.Basic); ok && b.Info()&types.IsString != 0 {
				switch x.Op {
				case "<":
					return boolVal(fmt.Sprintf("(str.< %s %s)", l.T, r.T))
				case "<=":
					return boolVal(fmt.Sprintf("(str.<= %s %s)", l.T, r.T))
				case ">":
					return boolVal(fmt.Sprintf("(str.< %s %s)", r.T, l.T))
				case ">=":
					return boolVal(fmt.Sprintf("(str.<= %s %s)", r.T, l.T))
				}
			}
		}
		return boolVal(fmt.Sprintf("(%s %s %s)", x.Op, l.T, r.T))
	case "+", "-", "*":
		l, r := vc.trExpr(env, x.L), vc.trExpr(env, x.R)
		if l.Typ != nil {
			if b, ok := l.Typ.Underlying().(*types.Basic); ok && b.Info()&types.IsString != 0 && x.Op == "+" {
				return Val{T: fmt.Sprintf("(str.++ %s %s)", l.T, r.T), Typ: l.Typ}
			}
		}
		return Val{T: fmt.Sprintf("(%s %s %s)", x.Op, l.T, r.T), Typ: pickType(l, r)}
	case "/":
		l, r := vc.trExpr(env, x.L), vc.trExpr(env, x.R)
		return Val{T: fmt.Sprintf("(div %s %s)", l.T, r.T), Typ: pickType(l, r)}
	case "%":
		l, r := vc.trExpr(env, x.L), vc.trExpr(env, x.R)
		return Val{T: fmt.Sprintf("(mod %s %s)", l.T, r.T), Typ: pickType(l, r)}
	}
	vc.specErr("unsupported operator %s", x.Op)
	return intVal("0")
}

func (vc *VC) trQuant(env *SpecEnv, q *EQuant) Val {
	kw := "forall"
	if !q.Forall {
		kw = "exists"
	}
	if q.Lo != nil {
		lo, hi := vc.trExpr(env, q.Lo).T, vc.trExpr(env, q.Hi).T
		// small constant ranges are expanded
		if isLiteralInt(lo) && isLiteralInt(hi) {
			l, _ := strconv.Atoi(lo)
			h, _ := strconv.Atoi(hi)
			if h-l <= 64 {
				var parts []string
				for i := l; i < h; i++ {
					parts = append(parts, vc.trBool(env.with(q.Var, intVal(strconv.Itoa(i))), q.Body))
				}
				if len(parts) == 0 {
					if q.Forall {
						return boolVal("true")
					}
					return boolVal("false")
				}
				op := "and"
				if !q.Forall {
					op = "or"
				}
				if len(parts) == 1 {
					return boolVal(parts[0])
				}
				return boolVal(fmt.Sprintf("(%s %s)", op, strings.Join(parts, " ")))
			}
		}
		vc.n++
		bv := fmt.Sprintf("%s?%d", sanitize(q.Var), vc.n)
		body := vc.trBool(env.with(q.Var, intVal(bv)), q.Body)
		if q.Forall {
			return boolVal(fmt.Sprintf("(forall ((%s Int)) (=> (and (<= %s %s) (< %s %s)) %s))", bv, lo, bv, bv, hi, body))
		}
		return boolVal(fmt.Sprintf("(exists ((%s Int)) (and (<= %s %s) (< %s %s) %s))", bv, lo, bv, bv, hi, body))
	}
	t := vc.resolveType(env, q.Typ)
	if t == nil {
		return boolVal("true")
	}
	vc.n++
	bv := fmt.Sprintf("%s?%d", sanitize(q.Var), vc.n)
	sort := vc.sortOf(t)
	var bound Val
	decl := fmt.Sprintf("(%s %s)", bv, sort)
	if _, ok := t.Underlying().(*types.Slice); ok {
		bound = vc.termVal(bv, t)
	} else {
		bound = Val{T: bv, Typ: t}
	}
	body := vc.trBool(env.with(q.Var, bound), q.Body)
	return boolVal(fmt.Sprintf("(%s (%s) %s)", kw, decl, body))
}

func exprName(e Expr) string {
	switch x := e.(type) {
	case *EIdent:
		return x.Name
	case *ESel:
		return exprName(x.X) + "." + x.Name
	case *EUn:
		if x.Op == "*" {
			return "(*" + exprName(x.X) + ")"
		}
	case *EParen:
		if u, ok := x.X.(*EUn); ok && u.Op == "*" {
			return exprName(u) // (*T).m
		}
		return "(" + exprName(x.X) + ")" // (T).m : method with a value receiver
	}
	return e.String()
}

func (vc *VC) eventComp(name string) string {
	return vc.comp("ev."+name, "Int")
}

func (vc *VC) trCall(env *SpecEnv, c *ECall) Val {
	// method-style spec function: x.M(args)
	if sel, ok := c.Fun.(*ESel); ok {
		if id, isId := sel.X.(*EIdent); isId {
			if _, isVar := env.vars[id.Name]; !isVar {
				if p := vc.eng.findPackage(env.pkg, id.Name); p != nil {
					// pkg.Func(...) : conversion or spec function
					if sf, ok := vc.eng.specs.Specs[id.Name+"."+sel.Name]; ok {
						return vc.applySpecFun(env, sf, c.Args, nil)
					}
					if t := vc.resolveTypeQuiet(env, id.Name+"."+sel.Name); t != nil && len(c.Args) == 1 {
						v := vc.trExpr(env, c.Args[0])
						v.Typ = t
						return v
					}
				}
			}
		}
		recv := vc.trExpr(env, sel.X)
		if recv.Typ != nil {
			tn := typeBaseName(recv.Typ)
			if sf, ok := vc.eng.specs.Specs[tn+"."+sel.Name]; ok {
				return vc.applySpecFun(env, sf, c.Args, &recv)
			}
			vc.specErr("no spec function %s.%s", tn, sel.Name)
		} else {
			vc.specErr("method call on untyped value %s", c)
		}
		return intVal("0")
	}
	id, ok := c.Fun.(*EIdent)
	if !ok {
		vc.specErr("unsupported call %s", c)
		return intVal("0")
	}
	arg := func(i int) Val { return vc.trExpr(env, c.Args[i]) }
	switch id.Name {
	case "old":
		return vc.trExpr(env.inOld(), c.Args[0])
	case "len":
		v := arg(0)
		if v.Sl != nil {
			return intVal(v.Sl.Len)
		}
		if v.Typ != nil {
			switch u := v.Typ.Underlying().(type) {
			case *types.Basic:
				return intVal(fmt.Sprintf("(str.len %s)", v.T))
			case *types.Array:
				return intVal(fmt.Sprintf("%d", u.Len()))
			case *types.Map:
				return intVal(fmt.Sprintf("(select %s %s)", vc.get(env.st, vc.mapLenComp()), v.T))
			}
		}
		vc.specErr("len of %s", c.Args[0])
		return intVal("0")
	case "cap":
		v := arg(0)
		if v.Sl != nil {
			return intVal(v.Sl.Cap)
		}
		vc.specErr("cap of non-slice")
		return intVal("0")
	case "arr":
		v := arg(0)
		if v.Sl != nil {
			return intVal(v.Sl.Arr)
		}
		return intVal(v.T)
	case "off":
		v := arg(0)
		if v.Sl != nil {
			return intVal(v.Sl.Off)
		}
		return intVal("0")
	case "called":
		name := exprName(c.Args[0])
		comp := vc.eventComp(name)
		return boolVal(fmt.Sprintf("(> %s %s)", vc.get(env.st, comp), vc.get(env.old, comp)))
	case "ncalls":
		name := exprName(c.Args[0])
		comp := vc.eventComp(name)
		return intVal(fmt.Sprintf("(- %s %s)", vc.get(env.st, comp), vc.get(env.old, comp)))
	case "has":
		m, k := arg(0), arg(1)
		mt, ok := m.Typ.Underlying().(*types.Map)
		if !ok {
			vc.specErr("has() on non-map")
			return boolVal("false")
		}
		_, domC := vc.mapComps(mt)
		return boolVal(fmt.Sprintf("(and (not (= %s 0)) (select (select %s %s) %s))", m.T, vc.get(env.st, domC), m.T, vc.valTerm(k)))
	case "fresh":
		v := arg(0)
		ref := v.T
		if v.Sl != nil {
			ref = v.Sl.Arr
		}
		return boolVal(fmt.Sprintf("(> %s %s)", ref, vc.get(env.old, vc.nextComp())))
	case "allocated":
		v := arg(0)
		ref := v.T
		if v.Sl != nil {
			ref = v.Sl.Arr
		}
		return boolVal(fmt.Sprintf("(<= %s %s)", ref, vc.get(env.st, vc.nextComp())))
	case "same_array":
		a, b := arg(0), arg(1)
		if a.Sl == nil || b.Sl == nil {
			vc.specErr("same_array on non-slices")
			return boolVal("true")
		}
		return boolVal(fmt.Sprintf("(= %s %s)", a.Sl.Arr, b.Sl.Arr))
	case "dyntype":
		return intVal(fmt.Sprintf("(dyntype %s)", arg(0).T))
	case "typeimpl":
		// typeimpl(x, I): x is non-nil and its dynamic type implements interface I (what `x.(I)` tests)
		v := arg(0)
		t := vc.resolveType(env, exprName(c.Args[1]))
		if t == nil {
			return boolVal("false")
		}
		if it, ok := t.Underlying().(*types.Interface); ok && it.NumMethods() == 0 {
			return boolVal(fmt.Sprintf("(not (= %s 0))", v.T))
		}
		return boolVal(fmt.Sprintf("(and (not (= %s 0)) (implements (dyntype %s) %d))", v.T, v.T, vc.typeTag(t)))
	case "fn":
		// fn(Name): the value of the named function / capture-free closure of the contract's package
		if env.pkg != nil {
			if f := vc.eng.findFunc(&FuncSpec{Pkg: env.pkg.Path(), Name: exprName(c.Args[0])}); f != nil {
				return Val{T: vc.fnConst(f), Typ: types.Typ[types.Int]}
			}
		}
		vc.specErr("fn(%s): no such function", exprName(c.Args[0]))
		return intVal("0")
	case "typeis":
		v := arg(0)
		t := vc.resolveType(env, exprName(c.Args[1]))
		if t == nil {
			return boolVal("false")
		}
		return boolVal(fmt.Sprintf("(and (not (= %s 0)) (= (dyntype %s) %d))", v.T, v.T, vc.typeTag(t)))
	case "int", "int64", "int32", "uint32", "uint64", "uint8", "byte", "uint", "int8", "int16", "uint16":
		v := arg(0)
		t := vc.resolveType(env, id.Name)
		if id.Name == "uint32" || id.Name == "uint8" || id.Name == "byte" || id.Name == "int32" || id.Name == "uint16" || id.Name == "int16" || id.Name == "int8" {
			return Val{T: vc.wrap(v.T, t), Typ: t}
		}
		return Val{T: v.T, Typ: t}
	case "string":
		v := arg(0)
		return Val{T: v.T, Typ: types.Typ[types.String]}
	case "zero":
		t := vc.resolveType(env, exprName(c.Args[0]))
		if t == nil {
			return intVal("0")
		}
		return vc.zeroVal(t)
	case "min", "max":
		a, b := arg(0), arg(1)
		op := "<="
		if id.Name == "max" {
			op = ">="
		}
		return Val{T: fmt.Sprintf("(ite (%s %s %s) %s %s)", op, a.T, b.T, a.T, b.T), Typ: pickType(a, b)}
	case "unchanged":
		var parts []string
		for _, a := range c.Args {
			now := vc.trExpr(env, a)
			was := vc.trExpr(env.inOld(), a)
			if now.Sl != nil {
				parts = append(parts, fmt.Sprintf("(and (= %s %s) (= %s %s) (= %s %s))", now.Sl.Arr, was.Sl.Arr, now.Sl.Off, was.Sl.Off, now.Sl.Len, was.Sl.Len))
			} else {
				parts = append(parts, fmt.Sprintf("(= %s %s)", now.T, was.T))
			}
		}
		if len(parts) == 1 {
			return boolVal(parts[0])
		}
		return boolVal("(and " + strings.Join(parts, " ") + ")")
	case "smt":
		// smt("raw term with $0 $1", args...) : escape hatch for prelude-defined functions
		raw := c.Args[0].(*EStr).V
		for i := len(c.Args) - 1; i >= 1; i-- {
			raw = strings.ReplaceAll(raw, fmt.Sprintf("$%d", i-1), vc.valTerm(arg(i)))
		}
		return Val{T: raw}
	case "smtbool":
		raw := c.Args[0].(*EStr).V
		for i := len(c.Args) - 1; i >= 1; i-- {
			raw = strings.ReplaceAll(raw, fmt.Sprintf("$%d", i-1), vc.valTerm(arg(i)))
		}
		return boolVal(raw)
	}
	if sf, ok := vc.eng.specs.Specs[id.Name]; ok {
		return vc.applySpecFun(env, sf, c.Args, nil)
	}
	// conversion to a named type of the package: T(x)
	if t := vc.resolveTypeQuiet2(env, id.Name); t != nil && len(c.Args) == 1 {
		v := arg(0)
		v.Typ = t
		return v
	}
	vc.specErr("unknown spec function %s", id.Name)
	return intVal("0")
}

func (vc *VC) resolveTypeQuiet2(env *SpecEnv, name string) types.Type {
	if env.pkg == nil {
		return nil
	}
	if obj := env.pkg.Scope().Lookup(name); obj != nil {
		if tn, ok := obj.(*types.TypeName); ok {
			return tn.Type()
		}
	}
	return nil
}

func typeBaseName(t types.Type) string {
	if p, ok := t.(*types.Pointer); ok {
		t = p.Elem()
	}
	if p, ok := t.Underlying().(*types.Pointer); ok && t == t.Underlying() {
		t = p.Elem()
	}
	switch n := t.(type) {
	case *types.Named:
		return n.Obj().Name()
	case *types.Alias:
		return n.Obj().Name()
	}
	return t.String()
}

func (vc *VC) applySpecFun(env *SpecEnv, sf *SpecFun, args []Expr, recv *Val) Val {
	if env.depth > 20 {
		vc.specErr("spec function recursion too deep at %s", sf.Name)
		return intVal("0")
	}
	var vals []Val
	if recv != nil {
		vals = append(vals, *recv)
	}
	for _, a := range args {
		vals = append(vals, vc.trExpr(env, a))
	}
	if len(vals) != len(sf.Params) {
		vc.specErr("spec function %s expects %d arguments, got %d", sf.Name, len(sf.Params), len(vals))
		return intVal("0")
	}
	// the spec function is resolved in its own package scope
	fenv := *env
	fenv.depth = env.depth + 1
	if sf.Pkg != "" {
		if p := vc.eng.pkgByPath(sf.Pkg); p != nil {
			fenv.pkg = p
		}
	}
	hidden := false
	if vc.spec != nil {
		for _, h := range vc.spec.Hide {
			if h == sf.Name {
				hidden = true
			}
		}
	}
	if sf.Body == nil || hidden {
		// uninterpreted
		fname := "sf_" + sanitize(sf.Name)
		var sorts, terms []string
		for i, v := range vals {
			pt := vc.resolveType(&fenv, sf.PTypes[i])
			if pt != nil {
				if _, isSl := pt.Underlying().(*types.Slice); isSl && v.Sl != nil {
					// slices are passed by content: (row, off, len)
					el := pt.Underlying().(*types.Slice).Elem()
					sorts = append(sorts, fmt.Sprintf("(Array Int %s)", vc.sortOf(el)), "Int", "Int")
					terms = append(terms, fmt.Sprintf("(select %s %s)", vc.get(env.st, vc.elemComp(el)), v.Sl.Arr), v.Sl.Off, v.Sl.Len)
					continue
				}
			}
			sorts = append(sorts, vc.sortOf(pt))
			terms = append(terms, vc.valTerm(v))
		}
		rt := vc.resolveType(&fenv, sf.RetTyp)
		if !vc.declared[fname] {
			vc.declared[fname] = true
			vc.emit(fmt.Sprintf("(declare-fun %s (%s) %s)", fname, strings.Join(sorts, " "), vc.sortOf(rt)))
			if len(sorts) == 3 && strings.HasPrefix(sorts[0], "(Array Int ") && sorts[1] == "Int" && sorts[2] == "Int" {
				vc.sliceUFs = append(vc.sliceUFs, [2]string{fname, sorts[0]})
			}
			// frame axiom: a function of a slice depends only on the elements inside the slice
			// (written for single-element stores so that E-matching can apply it along store chains)
			for i := 0; i+2 < len(sorts); i++ {
				if strings.HasPrefix(sorts[i], "(Array Int ") && sorts[i+1] == "Int" && sorts[i+2] == "Int" {
					var decl, a1, a2 []string
					for j, so := range sorts {
						decl = append(decl, fmt.Sprintf("(x%d %s)", j, so))
						if j == i {
							a1 = append(a1, fmt.Sprintf("(store x%d k v)", j))
						} else {
							a1 = append(a1, fmt.Sprintf("x%d", j))
						}
						a2 = append(a2, fmt.Sprintf("x%d", j))
					}
					es := arrayElemSort(sorts[i])
					vc.emit(fmt.Sprintf("(assert (forall (%s (k Int) (v %s)) (! (=> (or (< k x%d) (>= k (+ x%d x%d))) (= (%s %s) (%s %s))) :pattern ((%s %s)))))",
						strings.Join(decl, " "), es, i+1, i+1, i+2, fname, strings.Join(a1, " "), fname, strings.Join(a2, " "), fname, strings.Join(a1, " ")))
				}
			}
		}
		if len(terms) == 0 {
			return vc.termVal(fname, rt)
		}
		return vc.termVal(fmt.Sprintf("(%s %s)", fname, strings.Join(terms, " ")), rt)
	}
	fenv.vars = map[string]Val{}
	for i, p := range sf.Params {
		v := vals[i]
		// auto-dereference: pointer argument for a struct-valued parameter
		if v.Typ != nil && sf.PTypes[i] != "" && !strings.HasPrefix(sf.PTypes[i], "*") {
			if pt, ok := v.Typ.Underlying().(*types.Pointer); ok {
				if _, isS := isStruct(pt.Elem()); isS {
					v = vc.load(env.st, vc.addrOfPtr(v))
				}
			}
		}
		if v.Typ == nil && sf.PTypes[i] != "" {
			v.Typ = vc.resolveType(&fenv, sf.PTypes[i])
		}
		fenv.vars[p] = v
	}
	r := vc.trExpr(&fenv, sf.Body)
	if r.Typ == nil && sf.RetTyp != "" {
		r.Typ = vc.resolveType(&fenv, sf.RetTyp)
	}
	return r
}

// predeclareSliceUFs declares every uninterpreted spec function of a single slice up front, so that
// copy() can state that such functions (which depend on contents only) agree on copied ranges.
func (vc *VC) predeclareSliceUFs(pkg *types.Package) {
	for _, sf := range vc.eng.specs.Specs {
		if sf.Body != nil || len(sf.Params) != 1 || !strings.HasPrefix(sf.PTypes[0], "[]") {
			continue
		}
		if pkg == nil || sf.Pkg != pkg.Path() {
			continue // only in VCs of the package that declares the function
		}
		st := &State{pc: "true", heap: map[string]string{}}
		env := &SpecEnv{vc: vc, pkg: pkg, st: st, old: st, vars: map[string]Val{}}
		if sf.Pkg != "" {
			if p := vc.eng.pkgByPath(sf.Pkg); p != nil {
				env.pkg = p
			}
		}
		if env.pkg == nil {
			continue
		}
		t := vc.resolveTypeQuiet3(env, sf.PTypes[0])
		if t == nil {
			continue
		}
		env.vars["$x"] = Val{Sl: &SliceVal{"0", "0", "0", "0"}, Typ: t}
		vc.applySpecFun(env, sf, []Expr{&EIdent{Name: "$x"}}, nil)
	}
}

func (vc *VC) resolveTypeQuiet3(env *SpecEnv, name string) types.Type {
	n := len(vc.fatal)
	t := vc.resolveType(env, name)
	vc.fatal = vc.fatal[:n]
	return t
}
