package main

import (
	"fmt"
	"go/ast"
	"go/constant"
	"go/token"
	"go/types"
	"sort"
	"strings"

	"golang.org/x/tools/go/ssa"
)

// Frame is one function activation.
type Frame struct {
	fn      *ssa.Function
	spec    *FuncSpec // may be nil for inlined helpers
	env     map[ssa.Value]Val
	params  map[string]Val // spec-visible names: params, receiver
	callOrd map[string]int
	defers  []*deferRec
	top     bool
	oldSt   *State
	loopOrd map[*ssa.BasicBlock]int
	freeVar map[*ssa.FreeVar]Val
	locals  map[string]Val // source-level local variables (from DebugRef), latest binding
	idxVals map[string]Val // $idx<k> of enclosing range loops
	safeOn  bool           // inlined closure of the function under verification: its panics are this function's panics
}

type deferRec struct {
	instr *ssa.Defer
	flag  string // component name of the "was deferred" flag
	args  []Val
	fnVal Val
}

type retInfo struct {
	cond string
	st   *State
	vals []Val
}

// allocBound states that a value's references were allocated before now.
func (vc *VC) allocBound(st *State, v Val) string {
	next := vc.get(st, vc.nextComp())
	if v.Sl != nil {
		return fmt.Sprintf("(<= %s %s)", v.Sl.Arr, next)
	}
	if v.Typ == nil {
		return ""
	}
	switch v.Typ.Underlying().(type) {
	case *types.Pointer, *types.Map, *types.Chan:
		return fmt.Sprintf("(<= %s %s)", v.T, next)
	}
	return ""
}

func (vc *VC) freshVal(st *State, t types.Type, label string) Val {
	var v Val
	if tup, ok := t.(*types.Tuple); ok {
		v.Typ = t
		for i := 0; i < tup.Len(); i++ {
			v.Tuple = append(v.Tuple, vc.freshVal(st, tup.At(i).Type(), fmt.Sprintf("%s.%d", label, i)))
		}
		return v
	}
	if _, ok := t.Underlying().(*types.Slice); ok {
		v = Val{Sl: &SliceVal{vc.freshConst(label+".arr", "Int"), vc.freshConst(label+".off", "Int"), vc.freshConst(label+".len", "Int"), vc.freshConst(label+".cap", "Int")}, Typ: t}
	} else {
		v = Val{T: vc.freshConst(label, vc.sortOf(t)), Typ: t}
	}
	vc.assume(st, vc.rangeAssume(v))
	vc.assume(st, vc.allocBound(st, v))
	return v
}

// ---------------------------------------------------------------- top level

func (vc *VC) verifyFunction() {
	fn := vc.fn
	st := &State{pc: "true", heap: map[string]string{}}
	fr := &Frame{fn: fn, spec: vc.spec, env: map[ssa.Value]Val{}, params: map[string]Val{}, callOrd: map[string]int{}, top: true}
	vc.comp("$next", "Int")
	vc.predeclareSliceUFs(fnPkg(fn))
	vc.localTypes = map[string]types.Type{}
	for _, b := range fn.Blocks {
		for _, in := range b.Instrs {
			if d, ok := in.(*ssa.DebugRef); ok {
				if id, ok := d.Expr.(*ast.Ident); ok {
					if v, ok := d.Object().(*types.Var); ok && !v.IsField() {
						vc.localTypes[id.Name] = v.Type()
					}
				}
			}
		}
	}
	for _, p := range fn.Params {
		v := vc.freshVal(st, p.Type(), "p."+p.Name())
		if v.Sl != nil {
			// WLOG zero offset for slice parameters (distinct slice parameters are assumed not to overlap)
			v.Sl.Off = "0"
			vc.note("slice parameters of a function under contract are assumed pairwise non-overlapping (offset normalised to 0)")
		}
		fr.env[p] = v
		fr.params[p.Name()] = v
		vc.replayParams = append(vc.replayParams, v)
	}
	for _, fv := range fn.FreeVars {
		v := vc.freshVal(st, fv.Type(), "fv."+fv.Name())
		fr.env[fv] = v
		fr.params[fv.Name()] = v
	}
	fr.oldSt = &State{pc: "true", heap: map[string]string{}}
	// preconditions
	if vc.spec != nil {
		for _, c := range vc.spec.Requires {
			env := vc.specEnv(fr, st, fr.oldSt, nil)
			f := vc.trBool(env, c.E)
			vc.assume(st, f)
		}
		for _, c := range vc.spec.Invariants {
			env := vc.specEnv(fr, st, fr.oldSt, nil)
			vc.assume(st, vc.trBool(env, c.E))
			vc.note("assumed data-structure invariant on entry of " + vc.fnName() + " (not checked at call sites): " + c.Src)
		}
	}
	// vacuity cover: precondition satisfiable
	cover := &Obligation{Name: vc.fnName() + "#cover.requires", Fn: vc.fnName(), Pc: st.pc, Goal: "true", NLines: len(vc.lines), Kind: "cover", Vacuity: true}
	vc.obls = append(vc.obls, cover)

	rets := vc.execBody(fr, st)
	// vacuity guard: an `at call` clause that applied to no call of the function says nothing - a misspelt callee name or
	// a call that disappeared must not pass silently
	if vc.spec != nil {
		for _, cs := range vc.spec.Calls {
			if !vc.matchedSites[cs] {
				ord := "*"
				if cs.Ordinal >= 0 {
					ord = fmt.Sprintf("%d", cs.Ordinal)
				}
				o := vc.obligeNoAssume(&State{pc: "true"}, fmt.Sprintf("%s#at.%s#%s.exists", vc.fnName(), cs.Callee, ord), "assert", "false",
					"the function contains a call the `at call "+cs.Callee+"#"+ord+"` clause applies to", fn.Pos())
				_ = o
			}
		}
	}
	if len(rets) == 0 {
		vc.note("function has no reachable return")
		return
	}
	var edges []edgeIn
	var conds []string
	for _, r := range rets {
		edges = append(edges, edgeIn{r.cond, r.st})
		conds = append(conds, r.cond)
	}
	exit := vc.merge(edges, "exit")
	vc.replayExit = exit
	results := map[string]Val{}
	sig := fn.Signature
	for i := 0; i < sig.Results().Len(); i++ {
		var vs []Val
		for _, r := range rets {
			vs = append(vs, r.vals[i])
		}
		rv := vc.mergeVals(conds, vs, sig.Results().At(i).Type(), fmt.Sprintf("ret%d", i))
		vc.replayResults = append(vc.replayResults, rv)
		results[fmt.Sprintf("ret%d", i)] = rv
		if n := sig.Results().At(i).Name(); n != "" && n != "_" {
			results[n] = rv
		}
		if sig.Results().Len() == 1 {
			results["ret"] = rv
		}
		if types.Identical(sig.Results().At(i).Type(), errorType) && i == sig.Results().Len()-1 {
			if _, ok := results["err"]; !ok {
				results["err"] = rv
			}
		}
	}
	// cover: some return reachable
	vc.obls = append(vc.obls, &Obligation{Name: vc.fnName() + "#cover.return", Fn: vc.fnName(), Pc: exit.pc, Goal: "true", NLines: len(vc.lines), Kind: "cover", Vacuity: true})
	if vc.spec != nil {
		// per-return result bindings: each postcondition is evaluated in the state of every return
		// separately (no merged heap arrays), and the obligation is the conjunction over the returns
		retResults := make([]map[string]Val, len(rets))
		for ri, r := range rets {
			m := map[string]Val{}
			for i := 0; i < sig.Results().Len(); i++ {
				rv := r.vals[i]
				m[fmt.Sprintf("ret%d", i)] = rv
				if n := sig.Results().At(i).Name(); n != "" && n != "_" {
					m[n] = rv
				}
				if sig.Results().Len() == 1 {
					m["ret"] = rv
				}
				if types.Identical(sig.Results().At(i).Type(), errorType) && i == sig.Results().Len()-1 {
					if _, ok := m["err"]; !ok {
						m["err"] = rv
					}
				}
			}
			retResults[ri] = m
		}
		for _, c := range vc.spec.Ensures {
			var parts []string
			var split [][2]string
			for ri, r := range rets {
				env := vc.specEnv(fr, r.st, fr.oldSt, retResults[ri])
				g := vc.trBool(env, c.E)
				parts = append(parts, fmt.Sprintf("(=> %s %s)", r.cond, g))
				split = append(split, [2]string{r.cond, g})
			}
			f := parts[0]
			if len(parts) > 1 {
				f = "(and " + strings.Join(parts, " ") + ")"
			}
			o := vc.obligeNoAssume(&State{pc: "true"}, fmt.Sprintf("%s#ensures.%d", vc.fnName(), c.Idx), "ensures", f, c.Src, fn.Pos())
			o.Tag = c.Tag
			if len(split) > 1 {
				o.Parts = split
			}
		}
		if vc.spec.HasMod {
			vc.frameCheck(fr, exit)
		}
	}
}

var errorType = types.Universe.Lookup("error").Type()

func (vc *VC) obligeNoAssume(st *State, name, kind, goal, src string, pos token.Pos) *Obligation {
	o := &Obligation{Name: name, Fn: vc.fnName(), Pc: st.pc, Goal: goal, NLines: len(vc.lines), Kind: kind, Src: src}
	if pos.IsValid() {
		o.Pos = vc.eng.fset.Position(pos)
	}
	vc.obls = append(vc.obls, o)
	return o
}

// ---------------------------------------------------------------- CFG helpers

type loopInfo struct {
	header *ssa.BasicBlock
	body   map[*ssa.BasicBlock]bool
	back   []*ssa.BasicBlock // sources of back edges
	ord    int
	zeroOff map[*ssa.Phi]bool // loop-carried slices kept at literal offset 0
	preserved [][3]string     // (component, ref, term at loop head) declared unchanged by the loop
}

// isDone: s is a block the loop goes to when its condition turns false (exit edge of the header or of a latch).
func (li *loopInfo) isDone(s *ssa.BasicBlock) bool {
	if li.body[s] {
		return false
	}
	for _, from := range append([]*ssa.BasicBlock{li.header}, li.back...) {
		for _, t := range from.Succs {
			if t == s {
				return true
			}
		}
	}
	return false
}

func findLoops(fn *ssa.Function) (map[*ssa.BasicBlock]*loopInfo, []*loopInfo) {
	loops := map[*ssa.BasicBlock]*loopInfo{}
	for _, b := range fn.Blocks {
		for _, s := range b.Succs {
			if s.Dominates(b) {
				li := loops[s]
				if li == nil {
					li = &loopInfo{header: s, body: map[*ssa.BasicBlock]bool{s: true}}
					loops[s] = li
				}
				li.back = append(li.back, b)
				// natural loop body
				stack := []*ssa.BasicBlock{b}
				for len(stack) > 0 {
					x := stack[len(stack)-1]
					stack = stack[:len(stack)-1]
					if li.body[x] {
						continue
					}
					li.body[x] = true
					for _, p := range x.Preds {
						stack = append(stack, p)
					}
				}
			}
		}
	}
	var list []*loopInfo
	for _, li := range loops {
		list = append(list, li)
	}
	// order by source position of the header's first positioned instruction, fallback block index
	sort.Slice(list, func(i, j int) bool {
		pi, pj := blockPos(list[i].header), blockPos(list[j].header)
		if pi != pj && pi.IsValid() && pj.IsValid() {
			return pi < pj
		}
		return list[i].header.Index < list[j].header.Index
	})
	for i, li := range list {
		li.ord = i
	}
	return loops, list
}

func blockPos(b *ssa.BasicBlock) token.Pos {
	// use the earliest valid position among the loop-header block and its first successor body
	best := token.NoPos
	var scan func(bb *ssa.BasicBlock)
	scan = func(bb *ssa.BasicBlock) {
		for _, in := range bb.Instrs {
			if _, isPhi := in.(*ssa.Phi); isPhi {
				continue // a phi carries the position of the variable's declaration
			}
			if _, isDbg := in.(*ssa.DebugRef); isDbg {
				continue
			}
			if p := in.Pos(); p.IsValid() && (best == token.NoPos || p < best) {
				best = p
			}
		}
	}
	scan(b)
	if best == token.NoPos {
		for _, s := range b.Succs {
			scan(s)
		}
	}
	return best
}

func rpo(fn *ssa.Function) []*ssa.BasicBlock {
	seen := map[*ssa.BasicBlock]bool{}
	var post []*ssa.BasicBlock
	var dfs func(b *ssa.BasicBlock)
	dfs = func(b *ssa.BasicBlock) {
		seen[b] = true
		for _, s := range b.Succs {
			if s.Dominates(b) { // back edge
				continue
			}
			if !seen[s] {
				dfs(s)
			}
		}
		post = append(post, b)
	}
	dfs(fn.Blocks[0])
	for i, j := 0, len(post)-1; i < j; i, j = i+1, j-1 {
		post[i], post[j] = post[j], post[i]
	}
	return post
}

// ---------------------------------------------------------------- body execution

type blockExit struct {
	st    *State
	conds []string // per successor
}

func (vc *VC) execBody(fr *Frame, st0 *State) []retInfo {
	fn := fr.fn
	if len(fn.Blocks) == 0 {
		vc.fatalf("function %s has no body", fn)
		return nil
	}
	if fn.Recover != nil {
		vc.note("recover block of " + fn.Name() + " is not modelled")
	}
	loops, _ := findLoops(fn)
	order := rpo(fn)
	pos := map[*ssa.BasicBlock]int{}
	for i, b := range order {
		pos[b] = i
	}
	// irreducibility check: every retreating edge must be a back edge to a dominator
	for _, b := range order {
		for _, s := range b.Succs {
			if p, ok := pos[s]; ok && p <= pos[b] && !s.Dominates(b) {
				vc.fatalf("irreducible control flow in %s", fn)
				return nil
			}
		}
	}
	exits := map[*ssa.BasicBlock]*blockExit{}
	var rets []retInfo
	for _, b := range order {
		var st *State
		li := loops[b]
		// incoming forward edges
		var ins []edgeIn
		var inPreds []*ssa.BasicBlock
		for _, p := range b.Preds {
			if b.Dominates(p) && li != nil && p != nil && li.body[p] { // back edge
				continue
			}
			ex := exits[p]
			if ex == nil {
				continue
			}
			for si, s := range p.Succs {
				if s == b {
					ins = append(ins, edgeIn{ex.conds[si], ex.st})
					inPreds = append(inPreds, p)
				}
			}
		}
		if b == fn.Blocks[0] {
			st = st0.clone()
		} else {
			if len(ins) == 0 {
				continue // unreachable block
			}
			st = vc.merge(ins, fmt.Sprintf("b%d", b.Index))
		}
		// phis
		var phis []*ssa.Phi
		for _, in := range b.Instrs {
			if ph, ok := in.(*ssa.Phi); ok {
				phis = append(phis, ph)
			} else {
				break
			}
		}
		entryPhi := map[*ssa.Phi]Val{}
		for _, ph := range phis {
			var cs []string
			var vs []Val
			for k, p := range inPreds {
				for ei, pp := range b.Preds {
					if pp == p {
						_ = ei
						v := vc.operand(fr, ph.Edges[predIndex(b, p, k, inPreds)])
						cs = append(cs, ins[k].cond)
						vs = append(vs, v)
						break
					}
				}
			}
			entryPhi[ph] = vc.mergeVals(cs, vs, ph.Type(), "phi."+ph.Name())
		}
		if li == nil {
			for _, ph := range phis {
				fr.env[ph] = entryPhi[ph]
			}
		} else {
			st = vc.loopHead(fr, li, st, phis, entryPhi)
		}
		for _, ph := range phis {
			if ph.Comment != "" && ph.Comment != "rangeindex" && !strings.Contains(ph.Comment, ".") {
				st.setLocal(ph.Comment, fr.env[ph])
			}
		}
		ex := vc.execBlock(fr, b, st, len(phis), &rets)
		exits[b] = ex
		// back edges out of this block: check invariants
		if ex != nil {
			// edges that leave a loop normally: `loop k exit assert` clauses
			if fr.spec != nil {
				var ordered []*loopInfo
				for _, l2 := range loops {
					ordered = append(ordered, l2)
				}
				sort.Slice(ordered, func(i, j int) bool { return ordered[i].ord < ordered[j].ord })
				for _, l2 := range ordered {
					ls := fr.spec.Loops[l2.ord]
					if ls == nil || len(ls.Exits) == 0 || !l2.body[b] {
						continue
					}
					for si, s := range b.Succs {
						if l2.body[s] {
							continue
						}
						// a normal exit goes to a "done" block of the loop: the target of an exit edge of the header or of a
						// latch (the loop condition turning false), also reached by `break`; edges towards a `return` do not count
						if !l2.isDone(s) {
							continue
						}
						est := ex.st.clone()
						est.pc = ex.conds[si]
						for _, c := range ls.Exits {
							env := vc.specEnvCur(fr, est, fr.oldStOrSelf(est), nil)
							name := fmt.Sprintf("%s#loop%d.exit.%d", vc.fnNameOf(fr), l2.ord, c.Idx)
							if k := vc.ord(fr, name); k > 0 { // several exit edges: later ones get an ordinal
								name = fmt.Sprintf("%s.e%d", name, k)
							}
							vc.oblige(est, name, "loop.exit", vc.trBool(env, c.E), c.Src, blockPos(l2.header))
						}
					}
				}
			}
			for si, s := range b.Succs {
				if l2 := loops[s]; l2 != nil && s.Dominates(b) {
					vc.loopBackEdge(fr, l2, b, ex, si)
				}
			}
		}
	}
	return rets
}

// predIndex finds the index in b.Preds of the k-th incoming forward edge (handles duplicate preds).
func predIndex(b *ssa.BasicBlock, p *ssa.BasicBlock, k int, inPreds []*ssa.BasicBlock) int {
	// count how many earlier entries of inPreds are the same pred
	dup := 0
	for i := 0; i < k; i++ {
		if inPreds[i] == p {
			dup++
		}
	}
	for i, pp := range b.Preds {
		if pp == p {
			if dup == 0 {
				return i
			}
			dup--
		}
	}
	return 0
}

func (vc *VC) execBlock(fr *Frame, b *ssa.BasicBlock, st *State, skip int, rets *[]retInfo) *blockExit {
	for _, in := range b.Instrs[skip:] {
		switch x := in.(type) {
		case *ssa.If:
			c := vc.operand(fr, x.Cond).T
			c = vc.define("br", "Bool", c)
			t := vc.freshConst("edge", "Bool")
			f := vc.freshConst("edge", "Bool")
			vc.emit(fmt.Sprintf("(assert (= %s (and %s %s)))", t, st.pc, c))
			vc.emit(fmt.Sprintf("(assert (= %s (and %s (not %s))))", f, st.pc, c))
			return &blockExit{st: st, conds: []string{t, f}}
		case *ssa.Jump:
			return &blockExit{st: st, conds: []string{st.pc}}
		case *ssa.Return:
			var vals []Val
			for _, r := range x.Results {
				vals = append(vals, vc.operand(fr, r))
			}
			*rets = append(*rets, retInfo{cond: st.pc, st: st, vals: vals})
			return nil
		case *ssa.Panic:
			if fr.top && vc.spec != nil && !vc.spec.MayPanic && !vc.spec.NoSafe {
				vc.oblige(st, fmt.Sprintf("%s#safe.panic.%d", vc.fnName(), vc.ord(fr, "panic")), "safe", "false", "explicit panic must be unreachable", x.Pos())
			}
			return nil
		case *ssa.RunDefers:
			vc.runDefers(fr, st)
		default:
			vc.execInstr(fr, in, st)
		}
	}
	return nil
}

func (vc *VC) ord(fr *Frame, key string) int {
	// one counter per verification unit, so names stay unique when closures of the function are inlined
	n := vc.callOrd[key]
	vc.callOrd[key] = n + 1
	return n
}

// ---------------------------------------------------------------- operands

func (vc *VC) operand(fr *Frame, v ssa.Value) Val {
	switch x := v.(type) {
	case *ssa.Const:
		return vc.constVal(x)
	case *ssa.Global:
		t := x.Type().(*types.Pointer).Elem()
		return Val{Addr: &Addr{Kind: aGlobal, Comp: vc.globalComp(x), Typ: t, GKey: globalKey(x)}, Typ: x.Type(), Global: globalKey(x)}
	case *ssa.Function:
		return Val{T: vc.fnConst(x), Clo: &Closure{Fn: x}, Typ: x.Type()}
	case *ssa.Builtin:
		return Val{Typ: x.Type()}
	}
	if val, ok := fr.env[v]; ok {
		return val
	}
	vc.fatalf("use of undefined SSA value %s (%T) in %s", v.Name(), v, fr.fn)
	return Val{T: "0", Typ: v.Type()}
}

// fnConst: the value of a function that captures nothing (distinct positive numerals, one per function).
func (vc *VC) fnConst(fn *ssa.Function) string {
	if vc.fnIDs == nil {
		vc.fnIDs = map[string]int{}
	}
	key := fn.String()
	id, ok := vc.fnIDs[key]
	if !ok {
		id = 2000000 + len(vc.fnIDs)
		vc.fnIDs[key] = id
	}
	return fmt.Sprintf("%d", id)
}

func globalKey(g *ssa.Global) string { return g.Pkg.Pkg.Path() + "." + g.Name() }

func (vc *VC) constVal(c *ssa.Const) Val {
	t := c.Type()
	if c.Value == nil {
		return vc.zeroVal(t)
	}
	switch c.Value.Kind() {
	case constant.Bool:
		if constant.BoolVal(c.Value) {
			return Val{T: "true", Typ: t}
		}
		return Val{T: "false", Typ: t}
	case constant.Int:
		if b, ok := t.Underlying().(*types.Basic); ok && b.Info()&types.IsFloat != 0 {
			return Val{T: constant.ToFloat(c.Value).ExactString() + ".0", Typ: t}
		}
		s := c.Value.ExactString()
		if strings.HasPrefix(s, "-") {
			s = "(- " + s[1:] + ")"
		}
		return Val{T: s, Typ: t}
	case constant.String:
		return Val{T: smtStr(constant.StringVal(c.Value)), Typ: t}
	case constant.Float:
		f, _ := constant.Float64Val(c.Value)
		s := fmt.Sprintf("%f", f)
		if strings.HasPrefix(s, "-") {
			s = "(- " + s[1:] + ")"
		}
		return Val{T: s, Typ: t}
	}
	return vc.zeroVal(t)
}

// ---------------------------------------------------------------- instructions

func (vc *VC) safe(fr *Frame) bool {
	return (fr.top || fr.safeOn) && (vc.spec == nil || !vc.spec.NoSafe)
}

func (vc *VC) execInstr(fr *Frame, in ssa.Instruction, st *State) {
	switch x := in.(type) {
	case *ssa.Alloc:
		t := x.Type().(*types.Pointer).Elem()
		pv := vc.allocObj(st, t, "new."+x.Name())
		fr.env[x] = pv
		switch x.Comment {
		case "", "new", "complit", "slicelit", "makeslice", "varargs", "arraylit", "maplit":
		default:
			// a local variable's cell (x.Comment is the variable name): remember it, see havocAll
			for _, l := range vc.objLocs(pv) {
				vc.localCells = append(vc.localCells, [2]string{l.Comp, l.Ref})
			}
			// the variable's value is whatever its cell holds (spec names resolve through the cell)
			st.setLocal(x.Comment, Val{Addr: vc.addrOfPtr(pv), Typ: x.Type(), Sort: "addr"})
		}
	case *ssa.FieldAddr:
		base := vc.operand(fr, x.X)
		ba := vc.addrOfPtr(base)
		if vc.safe(fr) && base.T != "" {
			vc.oblige(st, fmt.Sprintf("%s#safe.nil.%d", vc.fnName(), vc.ord(fr, "nil")), "safe", fmt.Sprintf("(not (= %s 0))", base.T), "nil dereference: "+x.X.Name(), x.Pos())
		}
		na := &Addr{Kind: ba.Kind, Ref: ba.Ref, Typ: ba.Typ, Elem: ba.Elem, Comp: ba.Comp, GKey: ba.GKey, Path: append(append([]Step{}, ba.Path...), Step{Field: x.Field})}
		fr.env[x] = Val{Addr: na, Typ: x.Type()}
	case *ssa.Field:
		base := vc.operand(fr, x.X)
		term, t := vc.project(base.T, x.X.Type(), []Step{{Field: x.Field}})
		fv := vc.termVal(term, t)
		if _, isFn := t.Underlying().(*types.Signature); isFn {
			fv.FnField = fieldFnKey(x.X.Type(), x.Field)
		}
		fr.env[x] = fv
	case *ssa.IndexAddr:
		idx := vc.operand(fr, x.Index).T
		base := vc.operand(fr, x.X)
		if base.Sl != nil {
			el := x.X.Type().Underlying().(*types.Slice).Elem()
			if vc.safe(fr) {
				vc.oblige(st, fmt.Sprintf("%s#safe.index.%d", vc.fnName(), vc.ord(fr, "index")), "safe", fmt.Sprintf("(and (<= 0 %s) (< %s %s))", idx, idx, base.Sl.Len), "index out of range: "+x.X.Name()+"["+x.Index.Name()+"]", x.Pos())
			}
			fr.env[x] = Val{Addr: &Addr{Kind: aRow, Ref: base.Sl.Arr, Typ: el, Elem: el, Path: []Step{{IsIndex: true, Index: addT(base.Sl.Off, idx)}}}, Typ: x.Type()}
			return
		}
		// pointer to array
		ba := vc.addrOfPtr(base)
		at := x.X.Type().Underlying().(*types.Pointer).Elem().Underlying().(*types.Array)
		if vc.safe(fr) {
			vc.oblige(st, fmt.Sprintf("%s#safe.index.%d", vc.fnName(), vc.ord(fr, "index")), "safe", fmt.Sprintf("(and (<= 0 %s) (< %s %d))", idx, idx, at.Len()), "index out of range", x.Pos())
		}
		na := &Addr{Kind: ba.Kind, Ref: ba.Ref, Typ: ba.Typ, Elem: ba.Elem, Comp: ba.Comp, GKey: ba.GKey, Path: append(append([]Step{}, ba.Path...), Step{IsIndex: true, Index: idx})}
		fr.env[x] = Val{Addr: na, Typ: x.Type()}
	case *ssa.Index:
		base := vc.operand(fr, x.X)
		idx := vc.operand(fr, x.Index).T
		switch u := x.X.Type().Underlying().(type) {
		case *types.Array:
			if vc.safe(fr) {
				vc.oblige(st, fmt.Sprintf("%s#safe.index.%d", vc.fnName(), vc.ord(fr, "index")), "safe", fmt.Sprintf("(and (<= 0 %s) (< %s %d))", idx, idx, u.Len()), "index out of range", x.Pos())
			}
			term, t := vc.project(base.T, x.X.Type(), []Step{{IsIndex: true, Index: idx}})
			fr.env[x] = vc.termVal(term, t)
		case *types.Basic: // string
			if vc.safe(fr) {
				vc.oblige(st, fmt.Sprintf("%s#safe.index.%d", vc.fnName(), vc.ord(fr, "index")), "safe", fmt.Sprintf("(and (<= 0 %s) (< %s (str.len %s)))", idx, idx, base.T), "string index out of range", x.Pos())
			}
			fr.env[x] = Val{T: fmt.Sprintf("(str.to_code (str.at %s %s))", base.T, idx), Typ: x.Type()}
		default:
			vc.fatalf("Index on %v", x.X.Type())
		}
	case *ssa.UnOp:
		vc.unop(fr, x, st)
	case *ssa.Store:
		a := vc.addrOfPtr(vc.operand(fr, x.Addr))
		if pv := vc.operand(fr, x.Addr); vc.safe(fr) && pv.T != "" && pv.Addr == nil {
			vc.oblige(st, fmt.Sprintf("%s#safe.nil.%d", vc.fnName(), vc.ord(fr, "nil")), "safe", fmt.Sprintf("(not (= %s 0))", pv.T), "nil dereference in store", x.Pos())
		}
		vc.store(st, a, vc.operand(fr, x.Val))
	case *ssa.BinOp:
		fr.env[x] = vc.binop(fr, x, st)
	case *ssa.Phi:
		vc.fatalf("phi in the middle of a block")
	case *ssa.Call:
		res := vc.call(fr, x, &x.Call, st)
		fr.env[x] = res
	case *ssa.Extract:
		tup := vc.operand(fr, x.Tuple)
		if x.Index < len(tup.Tuple) {
			fr.env[x] = tup.Tuple[x.Index]
		} else {
			vc.fatalf("extract from non-tuple")
			fr.env[x] = Val{T: "0", Typ: x.Type()}
		}
	case *ssa.MakeInterface:
		v := vc.operand(fr, x.X)
		fr.env[x] = vc.makeIface(v, x.X.Type(), x.Type())
	case *ssa.ChangeInterface:
		v := vc.operand(fr, x.X)
		v.Typ = x.Type()
		fr.env[x] = v
	case *ssa.ChangeType:
		v := vc.operand(fr, x.X)
		_, fromTP := types.Unalias(x.X.Type()).(*types.TypeParam)
		_, toIface := x.Type().Underlying().(*types.Interface)
		_, toTP := types.Unalias(x.Type()).(*types.TypeParam)
		if fromTP && toIface && !toTP { // any(key) in a generic body: the opaque value is boxed
			fr.env[x] = vc.makeIface(v, x.X.Type(), x.Type())
			break
		}
		v.Typ = x.Type()
		fr.env[x] = v
	case *ssa.Convert:
		fr.env[x] = vc.convert(fr, x, st)
	case *ssa.TypeAssert:
		fr.env[x] = vc.typeAssert(fr, x, st)
	case *ssa.Slice:
		fr.env[x] = vc.sliceOp(fr, x, st)
	case *ssa.MakeSlice:
		ln := vc.operand(fr, x.Len).T
		cp := vc.operand(fr, x.Cap).T
		el := x.Type().Underlying().(*types.Slice).Elem()
		if vc.safe(fr) {
			vc.oblige(st, fmt.Sprintf("%s#safe.make.%d", vc.fnName(), vc.ord(fr, "make")), "safe", fmt.Sprintf("(and (<= 0 %s) (<= %s %s))", ln, ln, cp), "makeslice: len out of range", x.Pos())
		}
		r := vc.alloc(st, "mk."+x.Name())
		c := vc.elemComp(el)
		es := vc.sortOf(el)
		vc.set(st, c, fmt.Sprintf("(store %s %s %s)", vc.get(st, c), r, vc.zeroRow(es, el)))
		fr.env[x] = Val{Sl: &SliceVal{r, "0", ln, cp}, Typ: x.Type()}
	case *ssa.MakeMap:
		mt := x.Type().Underlying().(*types.Map)
		r := vc.alloc(st, "map."+x.Name())
		_, dom := vc.mapComps(mt)
		vc.set(st, dom, fmt.Sprintf("(store %s %s ((as const (Array %s Bool)) false))", vc.get(st, dom), r, vc.sortOf(mt.Key())))
		ml := vc.mapLenComp()
		vc.set(st, ml, fmt.Sprintf("(store %s %s 0)", vc.get(st, ml), r))
		fr.env[x] = Val{T: r, Typ: x.Type()}
	case *ssa.MapUpdate:
		vc.mapUpdate(fr, x, st)
	case *ssa.Lookup:
		fr.env[x] = vc.lookup(fr, x, st)
	case *ssa.MakeClosure:
		fn := x.Fn.(*ssa.Function)
		var bs []Val
		for _, b := range x.Bindings {
			bs = append(bs, vc.operand(fr, b))
		}
		cloT := ""
		if len(bs) == 0 {
			// a closure that captures nothing is one function value
			cloT = vc.fnConst(fn)
		} else {
			cloT = vc.freshConst("clo", "Int")
			vc.emit(fmt.Sprintf("(assert (> %s 0))", cloT))
		}
		fr.env[x] = Val{T: cloT, Clo: &Closure{Fn: fn, Bindings: bs}, Typ: x.Type()}
	case *ssa.Defer:
		flag := vc.comp(vc.fresh("$deferred"), "Bool")
		vc.init[flag] = "false"
		st.heap[flag] = "true"
		var args []Val
		for _, a := range x.Call.Args {
			args = append(args, vc.operand(fr, a))
		}
		d := &deferRec{instr: x, flag: flag, args: args}
		if !x.Call.IsInvoke() {
			d.fnVal = vc.operand(fr, x.Call.Value)
		} else {
			d.fnVal = vc.operand(fr, x.Call.Value)
		}
		fr.defers = append(fr.defers, d)
	case *ssa.DebugRef:
		if id, ok := x.Expr.(*ast.Ident); ok && id.Name != "_" {
			if ov, isVar := x.Object().(*types.Var); isVar && !ov.IsField() { // (a selector's field name is reported too: not a local)
				v := vc.operand(fr, x.X)
				if x.IsAddr {
					v = Val{Addr: vc.addrOfPtr(v), Typ: v.Typ, Sort: "addr"}
				} else if old, ok := st.locals[id.Name]; ok && old.Sort == "addr" {
					// the variable lives in a cell (address taken / captured): the cell stays the binding,
					// a value read from it at some point would go stale
					break
				}
				st.setLocal(id.Name, v)
			}
		}
	case *ssa.Go:
		vc.fatalf("go statement (goroutines are outside the subset)")
	case *ssa.Send, *ssa.Select, *ssa.MakeChan:
		vc.fatalf("channel operation (outside the subset)")
	case *ssa.Range:
		fr.env[x] = Val{T: vc.operand(fr, x.X).T, Typ: x.X.Type()}
		if _, isMap := x.X.Type().Underlying().(*types.Map); !isMap {
			vc.fatalf("range over string (outside the subset)")
		}
	case *ssa.Next:
		// Iteration over a map is modelled as a nondeterministic choice: whether there is another entry is arbitrary,
		// and the entry is any key present in the map now. This over-approximates every iteration order (and does
		// not promise that every key is visited, nor termination): sound for safety/partial-correctness clauses.
		if x.IsString {
			vc.fatalf("range over string (outside the subset)")
			break
		}
		it := vc.operand(fr, x.Iter)
		mt, ok := it.Typ.Underlying().(*types.Map)
		if !ok {
			vc.fatalf("range iteration over %v (outside the subset)", it.Typ)
			break
		}
		valC, domC := vc.mapComps(mt)
		okv := vc.freshConst("next.ok", "Bool")
		k := vc.freshVal(st, mt.Key(), "next.k")
		kt := vc.valTerm(k)
		vc.assume(st, fmt.Sprintf("(=> %s (and (not (= %s 0)) (select (select %s %s) %s)))", okv, it.T, vc.get(st, domC), it.T, kt))
		v := vc.termVal(vc.define("next.v", vc.sortOf(mt.Elem()), fmt.Sprintf("(select (select %s %s) %s)", vc.get(st, valC), it.T, kt)), mt.Elem())
		vc.assume(st, vc.rangeAssume(v))
		vc.assume(st, vc.allocBound(st, v))
		fr.env[x] = Val{Tuple: []Val{{T: okv, Typ: types.Typ[types.Bool]}, k, v}, Typ: x.Type()}
		vc.note("range over a map is a nondeterministic iteration (any present key, any number of times); completeness of the iteration is not claimed")
	case *ssa.SliceToArrayPointer, *ssa.MultiConvert:
		vc.fatalf("unsupported conversion %T", in)
	default:
		vc.fatalf("unsupported instruction %T", in)
	}
}

func addT(a, b string) string {
	if a == "0" {
		return b
	}
	if b == "0" {
		return a
	}
	return fmt.Sprintf("(+ %s %s)", a, b)
}

func (vc *VC) unop(fr *Frame, x *ssa.UnOp, st *State) {
	switch x.Op {
	case token.MUL: // load
		pv := vc.operand(fr, x.X)
		if pv.Global != "" {
			if ce, ok := vc.eng.specs.Consts[pv.Global]; ok {
				env := vc.specEnv(fr, st, st, nil)
				if k := strings.LastIndex(pv.Global, "."); k > 0 {
					if gp := vc.eng.pkgByPath(pv.Global[:k]); gp != nil {
						env.pkg = gp // the constant expression is written in the global's own package
					}
				}
				v := vc.trExpr(env, ce)
				v.Typ = x.Type()
				v.Global = pv.Global
				fr.env[x] = v
				return
			}
		}
		a := vc.addrOfPtr(pv)
		if vc.safe(fr) && pv.T != "" && pv.Addr == nil {
			vc.oblige(st, fmt.Sprintf("%s#safe.nil.%d", vc.fnName(), vc.ord(fr, "nil")), "safe", fmt.Sprintf("(not (= %s 0))", pv.T), "nil dereference: *"+x.X.Name(), x.Pos())
		}
		v := vc.load(st, a)
		v.Typ = x.Type()
		if v.Sl == nil && strings.Contains(v.T, " ") {
			v.T = vc.define("ld."+x.Name(), vc.sortOf(x.Type()), v.T)
		}
		vc.assume(st, vc.rangeAssume(v))
		vc.assume(st, vc.allocBound(st, v))
		v.Global = pv.Global
		if fa, ok := x.X.(*ssa.FieldAddr); ok {
			if _, isFn := x.Type().Underlying().(*types.Signature); isFn {
				v.FnField = fieldFnKey(fa.X.Type(), fa.Field)
			}
		}
		fr.env[x] = v
	case token.NOT:
		fr.env[x] = Val{T: fmt.Sprintf("(not %s)", vc.operand(fr, x.X).T), Typ: x.Type()}
	case token.SUB:
		v := vc.operand(fr, x.X)
		fr.env[x] = Val{T: vc.wrap(fmt.Sprintf("(- %s)", v.T), x.Type()), Typ: x.Type()}
	case token.XOR:
		v := vc.operand(fr, x.X)
		// ^x = -x-1 for signed; max-x for unsigned
		if b, ok := x.Type().Underlying().(*types.Basic); ok && b.Info()&types.IsUnsigned != 0 {
			_, hi, _ := intRange(b)
			fr.env[x] = Val{T: fmt.Sprintf("(- %s %s)", hi, v.T), Typ: x.Type()}
		} else {
			fr.env[x] = Val{T: fmt.Sprintf("(- (- %s) 1)", v.T), Typ: x.Type()}
		}
	case token.ARROW:
		vc.fatalf("channel receive (outside the subset)")
	default:
		vc.fatalf("unsupported unary op %v", x.Op)
	}
}

// wrap applies wrap-around for integer types narrower than 64 bits.
func (vc *VC) wrap(term string, t types.Type) string {
	b, ok := t.Underlying().(*types.Basic)
	if !ok || b.Info()&types.IsInteger == 0 {
		return term
	}
	switch b.Kind() {
	case types.Uint8:
		return fmt.Sprintf("(mod %s 256)", term)
	case types.Uint16:
		return fmt.Sprintf("(mod %s 65536)", term)
	case types.Uint32:
		return fmt.Sprintf("(mod %s 4294967296)", term)
	case types.Int8:
		return fmt.Sprintf("(- (mod (+ %s 128) 256) 128)", term)
	case types.Int16:
		return fmt.Sprintf("(- (mod (+ %s 32768) 65536) 32768)", term)
	case types.Int32:
		return fmt.Sprintf("(- (mod (+ %s 2147483648) 4294967296) 2147483648)", term)
	}
	vc.note("64-bit integer arithmetic is treated as mathematical (no wrap-around)")
	return term
}

func isLiteralInt(s string) bool {
	if s == "" {
		return false
	}
	for _, c := range s {
		if c < '0' || c > '9' {
			return false
		}
	}
	return true
}

func (vc *VC) binop(fr *Frame, x *ssa.BinOp, st *State) Val {
	l, r := vc.operand(fr, x.X), vc.operand(fr, x.Y)
	t := x.Type()
	xt := x.X.Type()
	isStr := false
	isFloat := false
	if b, ok := xt.Underlying().(*types.Basic); ok {
		isStr = b.Info()&types.IsString != 0
		isFloat = b.Info()&types.IsFloat != 0
	}
	lt, rt := vc.valTerm(l), vc.valTerm(r)
	switch x.Op {
	case token.ADD:
		if isStr {
			return Val{T: fmt.Sprintf("(str.++ %s %s)", lt, rt), Typ: t}
		}
		return Val{T: vc.wrap(fmt.Sprintf("(+ %s %s)", lt, rt), t), Typ: t}
	case token.SUB:
		return Val{T: vc.wrap(fmt.Sprintf("(- %s %s)", lt, rt), t), Typ: t}
	case token.MUL:
		return Val{T: vc.wrap(fmt.Sprintf("(* %s %s)", lt, rt), t), Typ: t}
	case token.QUO:
		if isFloat {
			return Val{T: fmt.Sprintf("(/ %s %s)", lt, rt), Typ: t}
		}
		if vc.safe(fr) && !isLiteralInt(rt) {
			vc.oblige(st, fmt.Sprintf("%s#safe.div.%d", vc.fnName(), vc.ord(fr, "div")), "safe", fmt.Sprintf("(not (= %s 0))", rt), "division by zero", x.Pos())
		}
		// Go truncates toward zero
		return Val{T: fmt.Sprintf("(ite (>= %s 0) (div %s %s) (- (div (- %s) %s)))", lt, lt, rt, lt, rt), Typ: t}
	case token.REM:
		if vc.safe(fr) && !isLiteralInt(rt) {
			vc.oblige(st, fmt.Sprintf("%s#safe.div.%d", vc.fnName(), vc.ord(fr, "div")), "safe", fmt.Sprintf("(not (= %s 0))", rt), "division by zero", x.Pos())
		}
		return Val{T: fmt.Sprintf("(ite (>= %s 0) (mod %s %s) (- (mod (- %s) %s)))", lt, lt, rt, lt, rt), Typ: t}
	case token.EQL:
		if isFloat { // IEEE: NaN is not equal to anything (f.* are defined in contracts/lib.spec over an abstract NaN predicate)
			return Val{T: fmt.Sprintf("(f.eq %s %s)", lt, rt), Typ: t}
		}
		return Val{T: vc.eqTerm(l, r, xt), Typ: t}
	case token.NEQ:
		if isFloat {
			return Val{T: fmt.Sprintf("(not (f.eq %s %s))", lt, rt), Typ: t}
		}
		return Val{T: fmt.Sprintf("(not %s)", vc.eqTerm(l, r, xt)), Typ: t}
	case token.LSS, token.LEQ, token.GTR, token.GEQ:
		if isFloat { // every ordered comparison with a NaN operand is false
			switch x.Op {
			case token.LSS:
				return Val{T: fmt.Sprintf("(f.lt %s %s)", lt, rt), Typ: t}
			case token.GTR:
				return Val{T: fmt.Sprintf("(f.lt %s %s)", rt, lt), Typ: t}
			case token.LEQ:
				return Val{T: fmt.Sprintf("(or (f.lt %s %s) (f.eq %s %s))", lt, rt, lt, rt), Typ: t}
			default:
				return Val{T: fmt.Sprintf("(or (f.lt %s %s) (f.eq %s %s))", rt, lt, lt, rt), Typ: t}
			}
		}
		op := map[token.Token]string{token.LSS: "<", token.LEQ: "<=", token.GTR: ">", token.GEQ: ">="}[x.Op]
		if isStr {
			sop := map[token.Token]string{token.LSS: "str.<", token.LEQ: "str.<="}[x.Op]
			if sop != "" {
				return Val{T: fmt.Sprintf("(%s %s %s)", sop, lt, rt), Typ: t}
			}
			sop = map[token.Token]string{token.GTR: "str.<", token.GEQ: "str.<="}[x.Op]
			return Val{T: fmt.Sprintf("(%s %s %s)", sop, rt, lt), Typ: t}
		}
		return Val{T: fmt.Sprintf("(%s %s %s)", op, lt, rt), Typ: t}
	case token.LAND, token.LOR:
		op := "and"
		if x.Op == token.LOR {
			op = "or"
		}
		return Val{T: fmt.Sprintf("(%s %s %s)", op, lt, rt), Typ: t}
	case token.AND, token.OR, token.XOR, token.SHL, token.SHR, token.AND_NOT:
		if vc.sortOf(t) == "Bool" {
			op := map[token.Token]string{token.AND: "and", token.OR: "or", token.XOR: "xor"}[x.Op]
			return Val{T: fmt.Sprintf("(%s %s %s)", op, lt, rt), Typ: t}
		}
		return Val{T: vc.bitop(x.Op, lt, rt, t), Typ: t}
	}
	vc.fatalf("unsupported binary op %v", x.Op)
	return Val{T: "0", Typ: t}
}

// bitop: shifts by literal become mul/div; masks with 2^k-1 become mod; otherwise uninterpreted.
func (vc *VC) bitop(op token.Token, l, r string, t types.Type) string {
	pow := func(k int64) string {
		v := int64(1)
		if k >= 62 {
			s := "1"
			for i := int64(0); i < k; i++ {
				s = "(* 2 " + s + ")"
			}
			return s
		}
		for i := int64(0); i < k; i++ {
			v *= 2
		}
		return fmt.Sprintf("%d", v)
	}
	if isLiteralInt(r) {
		var k int64
		fmt.Sscanf(r, "%d", &k)
		switch op {
		case token.SHL:
			return vc.wrap(fmt.Sprintf("(* %s %s)", l, pow(k)), t)
		case token.SHR:
			return fmt.Sprintf("(div %s %s)", l, pow(k))
		case token.AND:
			if k >= 0 && (k+1)&k == 0 { // 2^n - 1
				return fmt.Sprintf("(mod %s %d)", l, k+1)
			}
		}
	}
	name := map[token.Token]string{token.AND: "bv_and", token.OR: "bv_or", token.XOR: "bv_xor", token.SHL: "bv_shl", token.SHR: "bv_shr", token.AND_NOT: "bv_andnot"}[op]
	if !vc.declared[name] {
		vc.declared[name] = true
		vc.emit(fmt.Sprintf("(declare-fun %s (Int Int) Int)", name))
	}
	vc.note("bit operation " + name + " is uninterpreted in Int mode")
	return fmt.Sprintf("(%s %s %s)", name, l, r)
}

// eqTerm implements Go == for the given static type.
func (vc *VC) eqTerm(l, r Val, t types.Type) string {
	if l.Sl != nil || r.Sl != nil {
		// slice compared with nil
		s := l.Sl
		if s == nil || (r.Sl != nil && r.Sl.Arr != "0") {
			s = r.Sl
		}
		if s == nil {
			return "true"
		}
		return fmt.Sprintf("(= %s 0)", s.Arr)
	}
	return fmt.Sprintf("(= %s %s)", vc.valTerm(l), vc.valTerm(r))
}

func (vc *VC) makeIface(v Val, from types.Type, to types.Type) Val {
	_, isTP := types.Unalias(from).(*types.TypeParam) // a type parameter's value is an opaque sort: it is boxed like any concrete value
	if _, ok := from.Underlying().(*types.Interface); ok && !isTP {
		v.Typ = to
		return v
	}
	box, unbox := vc.boxFns(from)
	inner := vc.valTerm(v)
	if inner == "" {
		// an interior pointer (address of a slice element / struct field) put into an interface: pointers into the middle
		// of objects are not first-class in this memory model, the boxed value is an opaque non-nil pointer
		inner = vc.freshConst("interiorptr", vc.sortOf(from))
		vc.emit(fmt.Sprintf("(assert (> %s 0))", inner))
		vc.note("an interior pointer stored into an interface value is opaque (writes through it are only modelled by the callee's modifies clause)")
	}
	inner = vc.define("boxed", vc.sortOf(from), inner)
	term := fmt.Sprintf("(%s %s)", box, inner)
	tag := vc.typeTag(from)
	vc.emit(fmt.Sprintf("(assert (and (= (%s %s) %s) (= (dyntype %s) %d) (> %s 0)))", unbox, term, inner, term, tag, term))
	orig := v
	orig.Typ = from
	return Val{T: term, Typ: to, Boxed: &orig}
}

func (vc *VC) typeAssert(fr *Frame, x *ssa.TypeAssert, st *State) Val {
	v := vc.operand(fr, x.X)
	var ok, val string
	var resT types.Type = x.AssertedType
	if _, isIface := x.AssertedType.Underlying().(*types.Interface); isIface {
		tag := vc.typeTag(x.AssertedType)
		ok = fmt.Sprintf("(and (not (= %s 0)) (implements (dyntype %s) %d))", v.T, v.T, tag)
		if it := x.AssertedType.Underlying().(*types.Interface); it.NumMethods() == 0 {
			ok = fmt.Sprintf("(not (= %s 0))", v.T)
		}
		val = v.T
	} else {
		box, unbox := vc.boxFns(x.AssertedType)
		tag := vc.typeTag(x.AssertedType)
		ok = fmt.Sprintf("(and (not (= %s 0)) (= (dyntype %s) %d))", v.T, v.T, tag)
		val = fmt.Sprintf("(%s %s)", unbox, v.T)
		// an interface value of dynamic type T is the box of its content (boxing is a bijection per type)
		vc.emit(fmt.Sprintf("(assert (=> %s (= (%s %s) %s)))", ok, box, val, v.T))
	}
	if x.CommaOk {
		okc := vc.define("taok", "Bool", ok)
		zero := vc.zeroVal(resT)
		res := vc.termVal(vc.define("taval", vc.sortOf(resT), fmt.Sprintf("(ite %s %s %s)", okc, val, vc.valTerm(zero))), resT)
		vc.assume(st, vc.rangeAssume(res)) // the content of an interface value is a well-formed value of its type
		return Val{Tuple: []Val{res, {T: okc, Typ: types.Typ[types.Bool]}}, Typ: x.Type()}
	}
	if vc.safe(fr) {
		vc.oblige(st, fmt.Sprintf("%s#safe.assert.%d", vc.fnName(), vc.ord(fr, "assert")), "safe", ok, "type assertion may panic", x.Pos())
	}
	rv := vc.termVal(val, resT)
	vc.assume(st, fmt.Sprintf("(=> %s %s)", ok, orTrue(vc.rangeAssume(rv))))
	return rv
}

func (vc *VC) convert(fr *Frame, x *ssa.Convert, st *State) Val {
	v := vc.operand(fr, x.X)
	from, to := x.X.Type().Underlying(), x.Type().Underlying()
	fb, fok := from.(*types.Basic)
	tb, tok := to.(*types.Basic)
	if fok && tok {
		switch {
		case fb.Info()&types.IsInteger != 0 && tb.Info()&types.IsInteger != 0:
			term := v.T
			flo, fhi, _ := intRange(fb)
			tlo, thi, _ := intRange(tb)
			if flo == tlo && fhi == thi {
				return Val{T: term, Typ: x.Type()}
			}
			// 64-bit <-> 64-bit sign reinterpretation
			switch tb.Kind() {
			case types.Uint64, types.Uint, types.Uintptr:
				return Val{T: fmt.Sprintf("(mod %s 18446744073709551616)", term), Typ: x.Type()}
			case types.Int64, types.Int:
				if fb.Kind() == types.Uint64 || fb.Kind() == types.Uint || fb.Kind() == types.Uintptr {
					return Val{T: fmt.Sprintf("(ite (> %s 9223372036854775807) (- %s 18446744073709551616) %s)", term, term, term), Typ: x.Type()}
				}
				return Val{T: term, Typ: x.Type()}
			}
			return Val{T: vc.wrap(term, x.Type()), Typ: x.Type()}
		case fb.Info()&types.IsInteger != 0 && tb.Info()&types.IsFloat != 0:
			return Val{T: fmt.Sprintf("(to_real %s)", v.T), Typ: x.Type()}
		case fb.Info()&types.IsFloat != 0 && tb.Info()&types.IsFloat != 0:
			return Val{T: v.T, Typ: x.Type()}
		case fb.Info()&types.IsFloat != 0 && tb.Info()&types.IsInteger != 0:
			return Val{T: fmt.Sprintf("(ite (>= %s 0.0) (to_int %s) (- (to_int (- %s))))", v.T, v.T, v.T), Typ: x.Type()}
		case fb.Info()&types.IsString != 0 && tb.Info()&types.IsString != 0:
			return Val{T: v.T, Typ: x.Type()}
		case fb.Info()&types.IsInteger != 0 && tb.Info()&types.IsString != 0:
			return Val{T: fmt.Sprintf("(str.from_code %s)", v.T), Typ: x.Type()}
		}
	}
	// string <-> []byte
	if _, ok := to.(*types.Slice); ok && fok && fb.Info()&types.IsString != 0 {
		r := vc.alloc(st, "s2b")
		el := to.(*types.Slice).Elem()
		c := vc.elemComp(el)
		row := vc.freshConst("s2b.row", fmt.Sprintf("(Array Int %s)", vc.sortOf(el)))
		vc.emit(fmt.Sprintf("(assert (forall ((i Int)) (! (=> (and (<= 0 i) (< i (str.len %s))) (= (select %s i) (str.to_code (str.at %s i)))) :pattern ((select %s i)))))", v.T, row, v.T, row))
		vc.set(st, c, fmt.Sprintf("(store %s %s %s)", vc.get(st, c), r, row))
		ln := fmt.Sprintf("(str.len %s)", v.T)
		return Val{Sl: &SliceVal{r, "0", ln, ln}, Typ: x.Type()}
	}
	if _, ok := from.(*types.Slice); ok && tok && tb.Info()&types.IsString != 0 {
		s := vc.freshConst("b2s", "Str")
		el := from.(*types.Slice).Elem()
		row := fmt.Sprintf("(select %s %s)", vc.get(st, vc.elemComp(el)), v.Sl.Arr)
		vc.emit(fmt.Sprintf("(assert (= (str.len %s) %s))", s, v.Sl.Len))
		vc.emit(fmt.Sprintf("(assert (forall ((i Int)) (! (=> (and (<= 0 i) (< i %s)) (= (str.to_code (str.at %s i)) (select %s (+ %s i)))) :pattern ((str.at %s i)))))", v.Sl.Len, s, row, v.Sl.Off, s))
		return Val{T: s, Typ: x.Type()}
	}
	if _, ok := to.(*types.Pointer); ok {
		return Val{T: v.T, Typ: x.Type()}
	}
	if tok && tb.Kind() == types.UnsafePointer {
		return Val{T: v.T, Typ: x.Type()}
	}
	vc.fatalf("unsupported conversion %v -> %v", x.X.Type(), x.Type())
	return Val{T: "0", Typ: x.Type()}
}

func (vc *VC) sliceOp(fr *Frame, x *ssa.Slice, st *State) Val {
	base := vc.operand(fr, x.X)
	var lo, hi, mx string
	if x.Low != nil {
		lo = vc.operand(fr, x.Low).T
	} else {
		lo = "0"
	}
	switch u := x.X.Type().Underlying().(type) {
	case *types.Slice:
		s := base.Sl
		if x.High != nil {
			hi = vc.operand(fr, x.High).T
		} else {
			hi = s.Len
		}
		if x.Max != nil {
			mx = vc.operand(fr, x.Max).T
		} else {
			mx = s.Cap
		}
		if vc.safe(fr) {
			vc.oblige(st, fmt.Sprintf("%s#safe.slice.%d", vc.fnName(), vc.ord(fr, "slice")), "safe", fmt.Sprintf("(and (<= 0 %s) (<= %s %s) (<= %s %s) (<= %s %s))", lo, lo, hi, hi, mx, mx, s.Cap), "slice bounds out of range", x.Pos())
		}
		return Val{Sl: &SliceVal{s.Arr, addT(s.Off, lo), subT(hi, lo), subT(mx, lo)}, Typ: x.Type()}
	case *types.Pointer: // pointer to array
		at := u.Elem().Underlying().(*types.Array)
		n := fmt.Sprintf("%d", at.Len())
		if x.High != nil {
			hi = vc.operand(fr, x.High).T
		} else {
			hi = n
		}
		if x.Max != nil {
			mx = vc.operand(fr, x.Max).T
		} else {
			mx = n
		}
		if vc.safe(fr) {
			vc.oblige(st, fmt.Sprintf("%s#safe.slice.%d", vc.fnName(), vc.ord(fr, "slice")), "safe", fmt.Sprintf("(and (<= 0 %s) (<= %s %s) (<= %s %s) (<= %s %s))", lo, lo, hi, hi, mx, mx, n), "slice bounds out of range", x.Pos())
		}
		a := vc.addrOfPtr(base)
		if a.Kind == aRow && len(a.Path) == 0 {
			return Val{Sl: &SliceVal{a.Ref, lo, subT(hi, lo), subT(mx, lo)}, Typ: x.Type()}
		}
		// array embedded in a struct / value: snapshot into a fresh row (read-only view)
		arrV := vc.load(st, a)
		r := vc.alloc(st, "arrview")
		c := vc.elemComp(at.Elem())
		row := vc.freshConst("row", fmt.Sprintf("(Array Int %s)", vc.sortOf(at.Elem())))
		sortA := vc.sortOf(u.Elem())
		for i := int64(0); i < at.Len() && i < 64; i++ {
			vc.emit(fmt.Sprintf("(assert (= (select %s %d) (at_%s %s %d)))", row, i, sortA, arrV.T, i))
		}
		if at.Len() > 64 {
			vc.emit(fmt.Sprintf("(assert (forall ((i Int)) (= (select %s i) (at_%s %s i))))", row, sortA, arrV.T))
		}
		vc.set(st, c, fmt.Sprintf("(store %s %s %s)", vc.get(st, c), r, row))
		vc.note("slicing an array embedded in a struct yields a read-only snapshot view (writes through it are not reflected)")
		return Val{Sl: &SliceVal{r, lo, subT(hi, lo), subT(mx, lo)}, Typ: x.Type()}
	case *types.Basic: // string
		if x.High != nil {
			hi = vc.operand(fr, x.High).T
		} else {
			hi = fmt.Sprintf("(str.len %s)", base.T)
		}
		if vc.safe(fr) {
			vc.oblige(st, fmt.Sprintf("%s#safe.slice.%d", vc.fnName(), vc.ord(fr, "slice")), "safe", fmt.Sprintf("(and (<= 0 %s) (<= %s %s) (<= %s (str.len %s)))", lo, lo, hi, hi, base.T), "string slice bounds out of range", x.Pos())
		}
		return Val{T: fmt.Sprintf("(str.substr %s %s %s)", base.T, lo, subT(hi, lo)), Typ: x.Type()}
	}
	vc.fatalf("unsupported slice operand %v", x.X.Type())
	return vc.zeroVal(x.Type())
}

func orTrue(f string) string {
	if f == "" {
		return "true"
	}
	return f
}

func subT(a, b string) string {
	if b == "0" {
		return a
	}
	if a == b {
		return "0"
	}
	// (+ b c) - b = c   (keeps slice lengths literal, so they can appear in E-matching patterns)
	if strings.HasPrefix(a, "(+ "+b+" ") && strings.HasSuffix(a, ")") {
		rest := strings.TrimSuffix(strings.TrimPrefix(a, "(+ "+b+" "), ")")
		if parts := splitSexp(rest); len(parts) == 1 {
			return parts[0]
		}
	}
	return fmt.Sprintf("(- %s %s)", a, b)
}

func (vc *VC) mapUpdate(fr *Frame, x *ssa.MapUpdate, st *State) {
	m := vc.operand(fr, x.Map)
	mt := x.Map.Type().Underlying().(*types.Map)
	k := vc.valTerm(vc.operand(fr, x.Key))
	v := vc.valTerm(vc.operand(fr, x.Value))
	if vc.safe(fr) {
		vc.oblige(st, fmt.Sprintf("%s#safe.nilmap.%d", vc.fnName(), vc.ord(fr, "nilmap")), "safe", fmt.Sprintf("(not (= %s 0))", m.T), "assignment to entry in nil map", x.Pos())
	}
	vc.mapStore(st, mt, m.T, k, v)
}

func (vc *VC) mapStore(st *State, mt *types.Map, m, k, v string) {
	valC, domC := vc.mapComps(mt)
	ml := vc.mapLenComp()
	curD := vc.get(st, domC)
	was := vc.define("mhas", "Bool", fmt.Sprintf("(select (select %s %s) %s)", curD, m, k))
	vc.set(st, ml, fmt.Sprintf("(store %s %s (ite %s (select %s %s) (+ (select %s %s) 1)))", vc.get(st, ml), m, was, vc.get(st, ml), m, vc.get(st, ml), m))
	curV := vc.get(st, valC)
	vc.set(st, valC, fmt.Sprintf("(store %s %s (store (select %s %s) %s %s))", curV, m, curV, m, k, v))
	vc.set(st, domC, fmt.Sprintf("(store %s %s (store (select %s %s) %s true))", curD, m, curD, m, k))
}

func (vc *VC) mapDelete(st *State, mt *types.Map, m, k string) {
	_, domC := vc.mapComps(mt)
	ml := vc.mapLenComp()
	curD := vc.get(st, domC)
	was := vc.define("mhas", "Bool", fmt.Sprintf("(select (select %s %s) %s)", curD, m, k))
	vc.set(st, ml, fmt.Sprintf("(store %s %s (ite %s (- (select %s %s) 1) (select %s %s)))", vc.get(st, ml), m, was, vc.get(st, ml), m, vc.get(st, ml), m))
	vc.set(st, domC, fmt.Sprintf("(store %s %s (store (select %s %s) %s false))", curD, m, curD, m, k))
}

func (vc *VC) lookup(fr *Frame, x *ssa.Lookup, st *State) Val {
	m := vc.operand(fr, x.X)
	k := vc.operand(fr, x.Index)
	mt, ok := x.X.Type().Underlying().(*types.Map)
	if !ok {
		// string index
		return Val{T: fmt.Sprintf("(str.to_code (str.at %s %s))", m.T, k.T), Typ: x.Type()}
	}
	valC, domC := vc.mapComps(mt)
	has := vc.define("mhas", "Bool", fmt.Sprintf("(and (not (= %s 0)) (select (select %s %s) %s))", m.T, vc.get(st, domC), m.T, vc.valTerm(k)))
	zero := vc.zeroVal(mt.Elem())
	raw := fmt.Sprintf("(ite %s (select (select %s %s) %s) %s)", has, vc.get(st, valC), m.T, vc.valTerm(k), vc.valTerm(zero))
	v := vc.termVal(vc.define("mval", vc.sortOf(mt.Elem()), raw), mt.Elem())
	vc.assume(st, vc.allocBound(st, v))
	if x.CommaOk {
		return Val{Tuple: []Val{v, {T: has, Typ: types.Typ[types.Bool]}}, Typ: x.Type()}
	}
	return v
}

// fieldFnKey names a function-typed struct field: "<pkgpath>::T.f" (contracts of kind fieldfn).
func fieldFnKey(t types.Type, field int) string {
	if p, ok := t.Underlying().(*types.Pointer); ok {
		t = p.Elem()
	}
	st, ok := t.Underlying().(*types.Struct)
	if !ok {
		return ""
	}
	name := ""
	pkg := ""
	switch n := types.Unalias(t).(type) {
	case *types.Named:
		name = n.Obj().Name()
		if n.Obj().Pkg() != nil {
			pkg = n.Obj().Pkg().Path()
		}
	default:
		return ""
	}
	return pkg + "::" + name + "." + st.Field(field).Name()
}
