package main

import (
	"encoding/json"
	"flag"
	"fmt"
	"os"
	"path/filepath"
	"sort"
	"strconv"
	"strings"
	"sync"
	"time"

	"golang.org/x/tools/go/ssa"
)

type KnownFinding struct {
	Property    string          `json:"property"`
	Obligation  string          `json:"obligation"`
	WhatFails   string          `json:"what_fails"`
	ReplayInput json.RawMessage `json:"replay_input,omitempty"`
	Status      string          `json:"status"`
}

type KnownFindings struct {
	Findings []KnownFinding `json:"findings"`
	Fixed    []string       `json:"fixed"`
}

func main() {
	if len(os.Args) < 2 {
		fmt.Fprintln(os.Stderr, "usage: govc check|dumpssa|specs ...")
		os.Exit(2)
	}
	switch os.Args[1] {
	case "check":
		os.Exit(cmdCheck(os.Args[2:]))
	case "dumpssa":
		cmdDump(os.Args[2:])
	case "modset":
		cmdModset(os.Args[2:])
	default:
		fmt.Fprintln(os.Stderr, "unknown command")
		os.Exit(2)
	}
}

func cmdDump(args []string) {
	fs := flag.NewFlagSet("dumpssa", flag.ExitOnError)
	repo := fs.String("repo", "/repo", "")
	verif := fs.String("verif", "/verif", "")
	fs.Parse(args)
	pkg, name := fs.Arg(0), fs.Arg(1)
	eng, err := NewEngine(*repo, *verif, []string{pkg})
	if err != nil {
		fmt.Fprintln(os.Stderr, err)
		os.Exit(2)
	}
	fn := eng.findFunc(&FuncSpec{Pkg: pkg, Name: name})
	if fn == nil {
		fmt.Fprintln(os.Stderr, "not found")
		os.Exit(1)
	}
	fn.WriteTo(os.Stdout)
	for _, af := range fn.AnonFuncs {
		af.WriteTo(os.Stdout)
	}
}

type fnReport struct {
	Name       string   `json:"name"`
	Obligs     int      `json:"obligations"`
	Discharged int      `json:"discharged"`
	Fatal      []string `json:"outside_subset,omitempty"`
	Inlined    []string `json:"inlined_callees,omitempty"`
	Opaque     []string `json:"opaque_calls,omitempty"`
	Uses       []string `json:"assumed_contracts_used,omitempty"`
}

func cmdCheck(args []string) int {
	fs := flag.NewFlagSet("check", flag.ExitOnError)
	repo := fs.String("repo", "/repo", "repository root")
	verif := fs.String("verif", "/verif", "verification root")
	prop := fs.String("prop", "", "property id")
	tier := fs.String("tier", "quick", "quick|thorough")
	only := fs.String("only", "", "only obligations containing this substring")
	dump := fs.String("dump", "", "directory to dump queries into")
	verbose := fs.Bool("v", false, "verbose")
	noEvidence := fs.Bool("no-evidence", false, "do not write the evidence file")
	fs.Parse(args)
	t0 := time.Now()
	seed := 0
	if s := os.Getenv("VERIF_SEED"); s != "" {
		seed, _ = strconv.Atoi(s)
	}
	timeoutS := 20
	if *tier == "thorough" {
		timeoutS = 90
	}
	engErr := func(f string, a ...any) int {
		fmt.Printf("ENGINE-ERROR property=%s %s\n", *prop, fmt.Sprintf(f, a...))
		return 2
	}
	// 0. bounded stand-ins of this property run beside the proof work
	bspecs := loadBounded(*verif, *prop)
	bch := make(chan *boundedResult, len(bspecs)+1)
	if *only == "" {
		for _, b := range bspecs {
			go func(b *BoundedSpec) { bch <- runBounded(*repo, *verif, *tier, *prop, b) }(b)
		}
	} else {
		bspecs = nil
	}
	// 1. specs -> functions of this property
	specs, err := LoadAllSpecs(*repo, *verif, "")
	if err != nil {
		return engErr("loading contracts: %v", err)
	}
	var targets []*FuncSpec
	pkgSet := map[string]bool{}
	for _, f := range specs.Funcs {
		if f.Kind != "func" {
			continue
		}
		for _, p := range f.Props {
			if p == *prop {
				targets = append(targets, f)
				pkgSet[f.Pkg] = true
			}
		}
	}
	var lemmas []*Lemma
	for _, l := range specs.Lemmas {
		for _, p := range l.Props {
			if p == *prop {
				lemmas = append(lemmas, l)
				if l.Pkg != "" {
					pkgSet[l.Pkg] = true
				}
			}
		}
	}
	var structurals []*Structural
	for _, s := range specs.Structurals {
		for _, p := range s.Props {
			if p == *prop {
				structurals = append(structurals, s)
				pkgSet[s.Pkg] = true
			}
		}
	}
	sort.Slice(targets, func(i, j int) bool { return specKey(targets[i].Pkg, targets[i].Name) < specKey(targets[j].Pkg, targets[j].Name) })
	if len(targets) == 0 && len(lemmas) == 0 && len(structurals) == 0 {
		return engErr("no contracts are tagged with this property")
	}
	var patterns []string
	for p := range pkgSet {
		patterns = append(patterns, p)
	}
	sort.Strings(patterns)
	eng, err := NewEngine(*repo, *verif, patterns)
	if err != nil {
		// the tree does not compile: not a property violation
		return engErr("%v", err)
	}
	loadS := time.Since(t0).Seconds()

	// 2. generate VCs
	var vcs []*VC
	var mu sync.Mutex
	var wg sync.WaitGroup
	var missing []string
	sem := make(chan struct{}, 8)
	for _, t := range targets {
		fn := eng.findFunc(t)
		if fn == nil {
			missing = append(missing, specKey(t.Pkg, t.Name))
			continue
		}
		wg.Add(1)
		go func(t *FuncSpec, fn *ssa.Function) {
			defer wg.Done()
			sem <- struct{}{}
			defer func() { <-sem }()
			vc := newVC(eng, fn, t)
			func() {
				defer func() {
					if r := recover(); r != nil {
						vc.fatalf("generator panic: %v", r)
					}
				}()
				vc.verifyFunction()
			}()
			mu.Lock()
			vcs = append(vcs, vc)
			mu.Unlock()
		}(t, fn)
	}
	for _, l := range lemmas {
		vc := newVC(eng, nil, nil)
		vc.verifyLemma(l)
		vcs = append(vcs, vc)
	}
	wg.Wait()
	sort.Slice(vcs, func(i, j int) bool { return vcs[i].fnName() < vcs[j].fnName() })
	genS := time.Since(t0).Seconds() - loadS

	// 3. solve
	tmp, err := os.MkdirTemp("/var/tmp", "govc-")
	if err != nil {
		return engErr("tmp dir: %v", err)
	}
	defer os.RemoveAll(tmp)
	var items []*solveItem
	for _, vc := range vcs {
		for _, o := range vc.obls {
			if *only != "" && !strings.Contains(o.Name, *only) {
				continue
			}
			// a clause tagged with property ids ("[C09,C08]") only counts for those properties
			if o.Tag != "" && strings.HasPrefix(o.Tag, "C") {
				mine := false
				for _, p := range strings.Split(o.Tag, ",") {
					if strings.TrimSpace(p) == *prop {
						mine = true
					}
				}
				if !mine {
					continue
				}
			}
			items = append(items, &solveItem{vc: vc, o: o, idx: len(items)})
		}
	}
	if *dump != "" {
		os.MkdirAll(*dump, 0o755)
		for _, it := range items {
			os.WriteFile(filepath.Join(*dump, sanitize(it.o.Name)+".smt2"), []byte(it.vc.query(it.o)), 0o644)
		}
	}
	solveAll(items, tmp, timeoutS, 5, *tier == "thorough")
	// second chance for obligations no solver decided in time (a loaded machine must not turn a slow query into an alarm):
	// the undecided ones - known findings excepted - are tried once more, two at a time, with three times the budget
	{
		kfNames := map[string]bool{}
		if data, err := os.ReadFile(filepath.Join(*verif, "known_findings.json")); err == nil {
			var kf0 KnownFindings
			if json.Unmarshal(data, &kf0) == nil {
				for _, f := range kf0.Findings {
					if f.Property == *prop && f.Status == "open" {
						kfNames[f.Obligation] = true
					}
				}
			}
		}
		var retry []*solveItem
		for _, it := range items {
			if !it.o.Vacuity && !kfNames[it.o.Name] && (it.o.Result == "unknown" || it.o.Result == "timeout") {
				retry = append(retry, it)
			}
		}
		if len(retry) > 0 && len(retry) <= 12 {
			solveAll(retry, tmp, timeoutS*3, 2, false)
			for _, it := range retry {
				it.o.Retried = true
			}
		}
	}
	solveS := time.Since(t0).Seconds() - loadS - genS
	// structural (method-set) obligations, decided on go/types
	for _, s := range structurals {
		for _, o := range eng.structuralObligations(s) {
			if *only != "" && !strings.Contains(o.Name, *only) {
				continue
			}
			items = append(items, &solveItem{o: o, idx: len(items)})
		}
	}

	// 4. verdicts
	var kf KnownFindings
	if data, err := os.ReadFile(filepath.Join(*verif, "known_findings.json")); err == nil {
		if err := json.Unmarshal(data, &kf); err != nil {
			return engErr("known_findings.json: %v", err)
		}
	}
	kfByObl := map[string]*KnownFinding{}
	for i := range kf.Findings {
		f := &kf.Findings[i]
		if f.Property == *prop && f.Status == "open" {
			kfByObl[f.Obligation] = f
		}
	}
	type viol struct {
		o   *Obligation
		why string
		it  *solveItem
	}
	var viols []viol
	kfLines := []string{}
	nObl, nDis, nCover, nCoverSat := 0, 0, 0, 0
	solverTime := map[string]float64{}
	winners := map[string]int{}
	var samples []map[string]any
	slow := []string{}
	disagreements := 0
	perFn := map[string]*fnReport{}
	kfSeen := map[string]bool{}
	for _, it := range items {
		o := it.o
		for s, t := range it.times {
			solverTime[s] += t
		}
		if *tier == "thorough" {
			hasSat, hasUnsat := false, false
			for _, r := range it.all {
				if r == "sat" {
					hasSat = true
				}
				if r == "unsat" {
					hasUnsat = true
				}
			}
			if hasSat && hasUnsat {
				disagreements++
			}
		}
		fr := perFn[o.Fn]
		if fr == nil {
			fr = &fnReport{Name: o.Fn}
			perFn[o.Fn] = fr
		}
		if o.Vacuity {
			nCover++
			switch o.Result {
			case "sat":
				nCoverSat++
			case "unsat":
				viols = append(viols, viol{o, "vacuity: " + o.Name + " is unreachable/contradictory (cover query unsat)", it})
			}
			continue
		}
		if k, ok := kfByObl[o.Name]; ok {
			kfSeen[o.Name] = true
			if o.Result != "unsat" {
				kfLines = append(kfLines, fmt.Sprintf("KNOWN-FINDING: property=%s %s [%s: %s]", *prop, k.WhatFails, o.Name, o.Result))
			}
			continue
		}
		nObl++
		fr.Obligs++
		if o.Result == "unsat" {
			nDis++
			fr.Discharged++
			winners[o.Solver]++
			if o.TimeS > float64(timeoutS)/2 {
				slow = append(slow, fmt.Sprintf("%s %.1fs", o.Name, o.TimeS))
			}
			if len(samples) < 6 {
				samples = append(samples, map[string]any{"obligation": o.Name, "kind": o.Kind, "clause": o.Src, "smt_bytes": o.Size, "solver": o.Solver, "time_s": round3(o.TimeS), "result": o.Result})
			}
		} else {
			viols = append(viols, viol{o, "obligation not discharged: " + o.Result, it})
		}
	}
	for name := range kfByObl {
		if strings.HasPrefix(name, "bounded:") {
			continue
		}
		if !kfSeen[name] && *only == "" {
			viols = append(viols, viol{&Obligation{Name: name, Result: "missing"}, "known-finding obligation no longer generated (contract or function removed?)", nil})
		}
	}
	var fatalFns []string
	trusted := map[string]bool{}
	assumptions := map[string]bool{}
	var fnReports []*fnReport
	for _, vc := range vcs {
		fr := perFn[vc.fnName()]
		if fr == nil {
			fr = &fnReport{Name: vc.fnName()}
			perFn[vc.fnName()] = fr
		}
		fr.Fatal = vc.fatal
		for k := range vc.inlined {
			fr.Inlined = append(fr.Inlined, k)
		}
		for k := range vc.opaque {
			fr.Opaque = append(fr.Opaque, k)
		}
		for k := range vc.uses {
			fr.Uses = append(fr.Uses, k)
			if !strings.HasPrefix(k, "func ") {
				trusted[k] = true
			}
		}
		sort.Strings(fr.Inlined)
		sort.Strings(fr.Opaque)
		sort.Strings(fr.Uses)
		for _, n := range vc.notes {
			assumptions[n] = true
		}
		for k := range vc.opaque {
			assumptions["opaque call: "+k] = true
		}
		if len(vc.fatal) > 0 {
			fatalFns = append(fatalFns, vc.fnName()+": "+strings.Join(vc.fatal, "; "))
		}
		fnReports = append(fnReports, fr)
	}
	for _, m := range missing {
		fatalFns = append(fatalFns, m+": function under contract not found in the tree")
	}
	sort.Slice(fnReports, func(i, j int) bool { return fnReports[i].Name < fnReports[j].Name })

	// 5. report
	exit := 0
	os.MkdirAll(filepath.Join(*verif, "replays", *prop), 0o755)
	for _, l := range kfLines {
		fmt.Println(l)
	}
	for _, f := range fatalFns {
		// A function that left the verifiable subset (or disappeared) makes the property undecided -> reported.
		path := filepath.Join(*verif, "replays", *prop, "outside_subset.json")
		writeJSON(path, map[string]any{"property": *prop, "problem": f, "note": "the function under contract can no longer be verified; its obligations are undischarged"})
		fmt.Printf("VIOLATION property=%s replay=%s %s no-failing-input-found\n", *prop, path, f)
		exit = 1
	}
	replays := 0
	for _, v := range viols {
		path := filepath.Join(*verif, "replays", *prop, sanitize(v.o.Name)+".json")
		rec := map[string]any{"property": *prop, "obligation": v.o.Name, "function": v.o.Fn, "kind": v.o.Kind, "clause": v.o.Src, "why": v.why,
			"source_position": v.o.Pos.String(), "solver_result": v.o.Result, "solver": v.o.Solver, "solver_output": truncate(v.o.Model, 20000)}
		if v.it != nil {
			rec["per_solver"] = v.it.all
		}
		suffix := " no-failing-input-found"
		if v.o.Result == "sat" && v.it != nil && replays < 4 {
			replays++
			if rp := tryReplay(eng, *verif, *prop, v.it, rec); rp == "confirmed" {
				suffix = ""
			}
		}
		writeJSON(path, rec)
		fmt.Printf("VIOLATION property=%s replay=%s obligation=%s (%s)%s\n", *prop, path, v.o.Name, v.why, suffix)
		exit = 1
	}
	// bounded stand-ins: collected here, reported separately, never counted as obligations
	var boundedEv []map[string]any
	nBoundedFail := 0
	for range bspecs {
		br := <-bch
		bev := map[string]any{"harness": br.Spec.Name, "what": br.Spec.What, "label": "BOUNDED stand-in, not a proof", "cmd": br.Cmd, "parts": br.Parts, "wall_s": round3(br.Seconds)}
		if br.Err != "" {
			path := filepath.Join(*verif, "replays", *prop, "bounded_"+sanitize(br.Spec.Name)+"_error.json")
			writeJSON(path, map[string]any{"property": *prop, "harness": br.Spec.Name, "problem": br.Err, "cmd": br.Cmd, "output": truncate(br.Output, 20000)})
			fmt.Printf("VIOLATION property=%s replay=%s bounded harness %s: %s no-failing-input-found\n", *prop, path, br.Spec.Name, br.Err)
			nBoundedFail++
			exit = 1
			bev["error"] = br.Err
		}
		var failIDs []string
		for _, f := range br.Fails {
			mine := false
			for _, p := range f.Props {
				if p == *prop {
					mine = true
				}
			}
			if !mine {
				continue
			}
			failIDs = append(failIDs, f.ID)
			if k, ok := kfByObl["bounded:"+f.ID]; ok {
				line := fmt.Sprintf("KNOWN-FINDING: property=%s %s [bounded:%s]", *prop, k.WhatFails, f.ID)
				fmt.Println(line)
				kfLines = append(kfLines, line)
				continue
			}
			path := filepath.Join(*verif, "replays", *prop, "bounded_"+sanitize(f.ID)+".json")
			writeJSON(path, map[string]any{"property": *prop, "harness": br.Spec.Name, "case": f.ID, "what_failed": f.Detail,
				"replay": "the case id names the configuration and the operation sequence; re-run with: " + br.Cmd, "kind": "bounded stand-in (real code against a reference model)"})
			fmt.Printf("VIOLATION property=%s replay=%s bounded case %s: %s\n", *prop, path, f.ID, truncate(f.Detail, 300))
			nBoundedFail++
			exit = 1
		}
		bev["failing_cases"] = failIDs
		boundedEv = append(boundedEv, bev)
	}
	if disagreements > 0 {
		fmt.Printf("ENGINE-ERROR property=%s %d solver disagreements\n", *prop, disagreements)
		exit = 2
	}
	if nObl == 0 && exit == 0 {
		return engErr("zero obligations generated")
	}
	// 6. evidence
	var tb []string
	tb = append(tb, "govc VC generator (this repository's /verif/engine) over go/ssa (x/tools v0.50.0, go1.26.8)", "SMT solvers z3 4.8.12, z3 5.1.0 (z3-new), cvc5 1.0")
	for k := range trusted {
		tb = append(tb, "assumed contract: "+k)
	}
	sort.Strings(tb[2:])
	as := []string{}
	for k := range assumptions {
		as = append(as, k)
	}
	sort.Strings(as)
	var fnNames []string
	for _, fr := range fnReports {
		fnNames = append(fnNames, fr.Name)
	}
	if len(samples) == 0 {
		samples = append(samples, map[string]any{"note": "no discharged obligation in this run"})
	}
	ev := map[string]any{
		"property_id": *prop, "tier": *tier, "seed": seed, "level": "proof",
		"coverage": map[string]any{
			"obligations": nObl, "discharged": nDis,
			"checker_cmd":              fmt.Sprintf("/verif/bin/govc check -prop %s -tier %s (race of z3-new, z3, cvc5; %ds per obligation)", *prop, *tier, timeoutS),
			"trusted_base":             tb,
			"functions_under_contract": fnNames,
			"per_function":             fnReports,
			"samples":                  samples,
			"winner_counts":            winners,
			"solver_time_s":            roundMap(solverTime),
			"vacuity":                  map[string]int{"cover_queries": nCover, "cover_sat": nCoverSat},
			"known_findings_reported":  kfLines,
			"slow_obligations":         slow,
			"lemmas":                   len(lemmas),
			"phases_s":                 map[string]float64{"load": round3(loadS), "generate": round3(genS), "solve": round3(solveS)},
			"bounded":                  boundedEv,
		},
		"assumptions": as,
		"wall_s":      round3(time.Since(t0).Seconds()),
		"violations":  len(viols) + len(fatalFns) + nBoundedFail,
	}
	if len(boundedEv) > 0 {
		as = append(as, "bounded stand-ins (coverage.bounded) explore a stated finite space or a fixed sample of the real code against a reference model; they are not proofs and are not counted in obligations/discharged")
		ev["assumptions"] = as
	}
	if !*noEvidence && os.Getenv("GOVC_NOEVIDENCE") == "" {
		os.MkdirAll(filepath.Join(*verif, "evidence"), 0o755)
		writeJSON(filepath.Join(*verif, "evidence", *prop+".json"), ev)
	}
	if *verbose {
		for _, it := range items {
			fmt.Printf("  %-8s %-7s %6.2fs %7dB %s\n", it.o.Result, it.o.Solver, it.o.TimeS, it.o.Size, it.o.Name)
		}
		for _, vc := range vcs {
			for _, f := range vc.fatal {
				fmt.Printf("  FATAL %s: %s\n", vc.fnName(), f)
			}
		}
	}
	fmt.Printf("property=%s tier=%s functions=%d obligations=%d discharged=%d covers=%d/%d known_findings=%d violations=%d wall=%.1fs\n",
		*prop, *tier, len(vcs), nObl, nDis, nCoverSat, nCover, len(kfLines), len(viols)+len(fatalFns)+nBoundedFail, time.Since(t0).Seconds())
	for _, be := range boundedEv {
		n, ex := 0, 0
		for _, p := range be["parts"].([]boundedPart) {
			n += p.Evaluated
			if p.Exhaustive {
				ex += p.Evaluated
			}
		}
		fmt.Printf("bounded stand-in %s: %d cases on the real code (%d of them in exhaustively enumerated parts), failing=%v\n", be["harness"], n, ex, be["failing_cases"])
	}
	return exit
}

func truncate(s string, n int) string {
	if len(s) > n {
		return s[:n] + "...(truncated)"
	}
	return s
}

func round3(f float64) float64 { return float64(int(f*1000+0.5)) / 1000 }

func roundMap(m map[string]float64) map[string]float64 {
	out := map[string]float64{}
	for k, v := range m {
		out[k] = round3(v)
	}
	return out
}

func writeJSON(path string, v any) {
	data, _ := json.MarshalIndent(v, "", " ")
	os.WriteFile(path, append(data, '\n'), 0o644)
}

// verifyLemma: a lemma is a closed formula over universally quantified variables.
func (vc *VC) verifyLemma(l *Lemma) {
	st := &State{pc: "true", heap: map[string]string{}}
	vc.comp("$next", "Int")
	env := &SpecEnv{vc: vc, st: st, old: st, vars: map[string]Val{}}
	if l.Pkg != "" {
		env.pkg = vc.eng.pkgByPath(l.Pkg)
	}
	for _, v := range l.Vars {
		t := vc.resolveType(env, v[1])
		if t == nil {
			continue
		}
		env.vars[v[0]] = vc.freshVal(st, t, "lv."+v[0])
	}
	for _, r := range l.Requires {
		vc.assume(st, vc.trBool(env, r.E))
	}
	env.st = st
	for _, e := range l.Ensures {
		o := vc.obligeNoAssume(st, fmt.Sprintf("lemma.%s#ensures.%d", l.Name, e.Idx), "lemma", vc.trBool(env, e.E), e.Src, 0)
		o.Fn = "lemma." + l.Name
		o.Tag = e.Tag
	}
}
