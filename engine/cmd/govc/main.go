package main

import (
	"fmt"
	"os"

	"golang.org/x/tools/go/packages"
	"golang.org/x/tools/go/ssa"
	"golang.org/x/tools/go/ssa/ssautil"
)

func main() {
	cfg := &packages.Config{Mode: packages.LoadAllSyntax, Dir: "/repo", BuildFlags: []string{"-tags=verif"}}
	pkgs, err := packages.Load(cfg, os.Args[1:]...)
	if err != nil {
		panic(err)
	}
	prog, spkgs := ssautil.AllPackages(pkgs, ssa.InstantiateGenerics*0)
	prog.Build()
	for _, p := range spkgs {
		if p != nil {
			fmt.Println(p.Pkg.Path(), len(p.Members))
		}
	}
}
