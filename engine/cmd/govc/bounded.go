package main

import (
	"context"
	"encoding/json"
	"fmt"
	"os"
	"os/exec"
	"path/filepath"
	"regexp"
	"strconv"
	"strings"
	"time"
)

// ---------------------------------------------------------------- bounded stand-ins
//
// Where no contract reaches (whole-tree behaviour of the B-tree, code built on channels and goroutines), a bounded check of
// the REAL code may stand in: a Go test kept under /verif/bounded, injected into the package with `go test -overlay`
// (nothing is written into /repo), that enumerates a stated finite space (or a fixed sample, labelled as such) and compares
// the code with a reference model. Its cases are reported separately in the evidence ("bounded") and are NEVER counted as
// obligations or as proved. A failing case is a VIOLATION whose replay record carries the input; a failing case listed in
// known_findings.json (obligation "bounded:<id>") is a KNOWN-FINDING.

type BoundedSpec struct {
	Name     string   `json:"name"`
	Props    []string `json:"props"`
	Dir      string   `json:"dir"`
	File     string   `json:"file"`
	As       string   `json:"as"`
	Test     string   `json:"test"`
	What     string   `json:"what"`
	TimeoutQ int      `json:"timeout_quick_s"`
	TimeoutT int      `json:"timeout_thorough_s"`
}

type boundedPart struct {
	Harness    string `json:"harness"`
	Part       string `json:"part"`
	Evaluated  int    `json:"evaluated"`
	Distinct   int    `json:"distinct_nontrivial"`
	Exhaustive bool   `json:"exhaustive"`
	Bound      string `json:"bound"`
}

type boundedFail struct {
	ID     string
	Props  []string
	Detail string
}

type boundedResult struct {
	Spec    *BoundedSpec
	Parts   []boundedPart
	Fails   []boundedFail
	Passes  map[string]bool
	Err     string
	Output  string
	Cmd     string
	Seconds float64
}

func loadBounded(verif, prop string) []*BoundedSpec {
	data, err := os.ReadFile(filepath.Join(verif, "bounded", "bounded.json"))
	if err != nil {
		return nil
	}
	var all []*BoundedSpec
	if json.Unmarshal(data, &all) != nil {
		return nil
	}
	var out []*BoundedSpec
	for _, b := range all {
		for _, p := range b.Props {
			if p == prop {
				out = append(out, b)
			}
		}
	}
	return out
}

var (
	reSummary = regexp.MustCompile(`^BOUNDED-SUMMARY harness=(\S+) part=(\S+) evaluated=(\d+) distinct=(\d+) exhaustive=(true|false) bound="(.*)"$`)
	reFail    = regexp.MustCompile(`^BOUNDED-FAIL id=(\S+) props=(\S+) :: (.*)$`)
	rePass    = regexp.MustCompile(`^BOUNDED-PASS id=(\S+)$`)
)

func runBounded(repo, verif, tier, prop string, b *BoundedSpec) *boundedResult {
	res := &boundedResult{Spec: b, Passes: map[string]bool{}}
	t0 := time.Now()
	tmp, err := os.MkdirTemp("/var/tmp", "govc-bounded-")
	if err != nil {
		res.Err = err.Error()
		return res
	}
	defer os.RemoveAll(tmp)
	pkgDir := filepath.Join(repo, b.Dir)
	ov := filepath.Join(tmp, "overlay.json")
	os.WriteFile(ov, []byte(fmt.Sprintf(`{"Replace": {%q: %q}}`, filepath.Join(pkgDir, b.As), filepath.Join(verif, "bounded", b.File))), 0o644)
	to := b.TimeoutQ
	if tier == "thorough" {
		to = b.TimeoutT
	}
	if to == 0 {
		to = 600
	}
	ctx, cancel := context.WithTimeout(context.Background(), time.Duration(to+60)*time.Second)
	defer cancel()
	args := []string{"test", "-overlay", ov, "-vet=off", "-v", "-count=1", "-timeout", fmt.Sprintf("%ds", to), "-run", "^" + b.Test + "$", "."}
	cmd := exec.CommandContext(ctx, "go", args...)
	cmd.Dir = pkgDir
	cmd.Env = append(os.Environ(), "GOFLAGS=", "GOPROXY=off", "GOVC_TIER="+tier, "GOVC_PROP="+prop)
	out, runErr := cmd.CombinedOutput()
	res.Cmd = "cd " + pkgDir + " && GOVC_TIER=" + tier + " go " + strings.Join(args, " ")
	res.Output = string(out)
	res.Seconds = time.Since(t0).Seconds()
	for _, line := range strings.Split(res.Output, "\n") {
		line = strings.TrimRight(line, "\r")
		if m := reSummary.FindStringSubmatch(line); m != nil {
			ev, _ := strconv.Atoi(m[3])
			di, _ := strconv.Atoi(m[4])
			res.Parts = append(res.Parts, boundedPart{Harness: m[1], Part: m[2], Evaluated: ev, Distinct: di, Exhaustive: m[5] == "true", Bound: m[6]})
		} else if m := reFail.FindStringSubmatch(line); m != nil {
			res.Fails = append(res.Fails, boundedFail{ID: m[1], Props: strings.Split(m[2], ","), Detail: m[3]})
		} else if m := rePass.FindStringSubmatch(line); m != nil {
			res.Passes[m[1]] = true
		}
	}
	if len(res.Parts) == 0 {
		res.Err = "the bounded harness did not run to completion"
		if runErr != nil {
			res.Err += " (" + runErr.Error() + ")"
		}
	}
	return res
}
