package main

// Contract language: //@ comment blocks in zz_contracts_verif.go files (build tag verif)
// and in /verif/contracts/*.spec (library / interface contracts = trusted base).

import (
	"fmt"
	"os"
	"path/filepath"
	"sort"
	"strconv"
	"strings"
	"unicode"
)

// ---------------------------------------------------------------- AST

type Expr interface{ String() string }

type (
	EIdent  struct{ Name string }
	ENum    struct{ V string }
	EStr    struct{ V string }
	EBin    struct {
		Op   string
		L, R Expr
	}
	EUn struct {
		Op string
		X  Expr
	}
	ECall struct {
		Fun  Expr
		Args []Expr
	}
	EIndex struct{ X, I Expr }
	ESlice struct{ X, Lo, Hi Expr }
	ESel   struct {
		X    Expr
		Name string
	}
	ECond  struct{ C, A, B Expr }
	EQuant struct {
		Forall bool
		Var    string
		Lo, Hi Expr   // range form (Hi exclusive) or nil
		Typ    string // typed form
		Body   Expr
	}
	ETypeAssert struct {
		X   Expr
		Typ string
	}
	EParen struct{ X Expr }
)

func (e *EParen) String() string { return "(" + e.X.String() + ")" }

func (e *EIdent) String() string { return e.Name }
func (e *ENum) String() string   { return e.V }
func (e *EStr) String() string   { return strconv.Quote(e.V) }
func (e *EBin) String() string   { return "(" + e.L.String() + " " + e.Op + " " + e.R.String() + ")" }
func (e *EUn) String() string    { return e.Op + e.X.String() }
func (e *ECall) String() string {
	var a []string
	for _, x := range e.Args {
		a = append(a, x.String())
	}
	return e.Fun.String() + "(" + strings.Join(a, ", ") + ")"
}
func (e *EIndex) String() string { return e.X.String() + "[" + e.I.String() + "]" }
func (e *ESlice) String() string {
	lo, hi := "", ""
	if e.Lo != nil {
		lo = e.Lo.String()
	}
	if e.Hi != nil {
		hi = e.Hi.String()
	}
	return e.X.String() + "[" + lo + ":" + hi + "]"
}
func (e *ESel) String() string  { return e.X.String() + "." + e.Name }
func (e *ECond) String() string { return "(" + e.C.String() + " ? " + e.A.String() + " : " + e.B.String() + ")" }
func (e *EQuant) String() string {
	q := "exists"
	if e.Forall {
		q = "forall"
	}
	if e.Lo != nil {
		return fmt.Sprintf("(%s %s in %s..%s :: %s)", q, e.Var, e.Lo, e.Hi, e.Body)
	}
	return fmt.Sprintf("(%s %s %s :: %s)", q, e.Var, e.Typ, e.Body)
}
func (e *ETypeAssert) String() string { return e.X.String() + ".(" + e.Typ + ")" }

// ---------------------------------------------------------------- lexer

type tok struct {
	k string // ident num str op eof
	v string
}

func lex(s string) ([]tok, error) {
	var out []tok
	i := 0
	for i < len(s) {
		c := s[i]
		switch {
		case c == ' ' || c == '\t':
			i++
		case unicode.IsLetter(rune(c)) || c == '_' || c == '$':
			j := i
			for j < len(s) && (unicode.IsLetter(rune(s[j])) || unicode.IsDigit(rune(s[j])) || s[j] == '_' || s[j] == '$') {
				j++
			}
			out = append(out, tok{"ident", s[i:j]})
			i = j
		case unicode.IsDigit(rune(c)):
			j := i
			for j < len(s) && (unicode.IsDigit(rune(s[j])) || s[j] == 'x' || (s[j] >= 'a' && s[j] <= 'f') || (s[j] >= 'A' && s[j] <= 'F')) {
				j++
			}
			// do not swallow ".." of ranges
			out = append(out, tok{"num", s[i:j]})
			i = j
		case c == '"':
			j := i + 1
			for j < len(s) && s[j] != '"' {
				if s[j] == '\\' {
					j++
				}
				j++
			}
			if j >= len(s) {
				return nil, fmt.Errorf("unterminated string in %q", s)
			}
			v, err := strconv.Unquote(s[i : j+1])
			if err != nil {
				return nil, err
			}
			out = append(out, tok{"str", v})
			i = j + 1
		case c == '\'':
			j := i + 1
			for j < len(s) && s[j] != '\'' {
				if s[j] == '\\' {
					j++
				}
				j++
			}
			r, _, _, err := strconv.UnquoteChar(s[i+1:j], '\'')
			if err != nil {
				return nil, err
			}
			out = append(out, tok{"num", strconv.Itoa(int(r))})
			i = j + 1
		default:
			ops := []string{"<==>", "==>", "::", "..", "==", "!=", "<=", ">=", "&&", "||", "<<", ">>", "&^"}
			matched := false
			for _, op := range ops {
				if strings.HasPrefix(s[i:], op) {
					out = append(out, tok{"op", op})
					i += len(op)
					matched = true
					break
				}
			}
			if !matched {
				if strings.ContainsRune("+-*/%<>!()[]{}.,?:&|^=", rune(c)) {
					out = append(out, tok{"op", string(c)})
					i++
				} else {
					return nil, fmt.Errorf("bad character %q in %q", c, s)
				}
			}
		}
	}
	out = append(out, tok{"eof", ""})
	return out, nil
}

// ---------------------------------------------------------------- parser

type parser struct {
	toks []tok
	p    int
	src  string
}

func (p *parser) peek() tok { return p.toks[p.p] }
func (p *parser) next() tok { t := p.toks[p.p]; p.p++; return t }
func (p *parser) isOp(v string) bool {
	t := p.peek()
	return t.k == "op" && t.v == v
}
func (p *parser) expectOp(v string) {
	if !p.isOp(v) {
		panic(fmt.Errorf("spec parse: expected %q at token %d (%v) in %q", v, p.p, p.peek(), p.src))
	}
	p.p++
}

func parseExpr(s string) (e Expr, err error) {
	toks, err := lex(s)
	if err != nil {
		return nil, err
	}
	p := &parser{toks: toks, src: s}
	defer func() {
		if r := recover(); r != nil {
			if er, ok := r.(error); ok {
				err = er
				return
			}
			panic(r)
		}
	}()
	e = p.iff()
	if p.peek().k != "eof" {
		return nil, fmt.Errorf("spec parse: trailing tokens at %d (%v) in %q", p.p, p.peek(), s)
	}
	return e, nil
}

func (p *parser) iff() Expr {
	l := p.implies()
	for p.isOp("<==>") {
		p.next()
		r := p.implies()
		l = &EBin{"<==>", l, r}
	}
	return l
}
func (p *parser) implies() Expr {
	l := p.cond()
	if p.isOp("==>") {
		p.next()
		r := p.implies()
		return &EBin{"==>", l, r}
	}
	return l
}
func (p *parser) cond() Expr {
	c := p.or()
	if p.isOp("?") {
		p.next()
		a := p.cond()
		p.expectOp(":")
		b := p.cond()
		return &ECond{c, a, b}
	}
	return c
}
func (p *parser) or() Expr {
	l := p.and()
	for p.isOp("||") {
		p.next()
		l = &EBin{"||", l, p.and()}
	}
	return l
}
func (p *parser) and() Expr {
	l := p.cmp()
	for p.isOp("&&") {
		p.next()
		l = &EBin{"&&", l, p.cmp()}
	}
	return l
}
func (p *parser) cmp() Expr {
	l := p.add()
	for {
		t := p.peek()
		if t.k == "op" && (t.v == "==" || t.v == "!=" || t.v == "<" || t.v == "<=" || t.v == ">" || t.v == ">=") {
			p.next()
			l = &EBin{t.v, l, p.add()}
			continue
		}
		return l
	}
}
func (p *parser) add() Expr {
	l := p.mul()
	for {
		t := p.peek()
		if t.k == "op" && (t.v == "+" || t.v == "-" || t.v == "|" || t.v == "^") {
			p.next()
			l = &EBin{t.v, l, p.mul()}
			continue
		}
		return l
	}
}
func (p *parser) mul() Expr {
	l := p.unary()
	for {
		t := p.peek()
		if t.k == "op" && (t.v == "*" || t.v == "/" || t.v == "%" || t.v == "&" || t.v == "<<" || t.v == ">>" || t.v == "&^") {
			p.next()
			l = &EBin{t.v, l, p.unary()}
			continue
		}
		return l
	}
}
func (p *parser) unary() Expr {
	t := p.peek()
	if t.k == "op" && (t.v == "!" || t.v == "-" || t.v == "*" || t.v == "&") {
		p.next()
		return &EUn{t.v, p.unary()}
	}
	return p.postfix()
}
func (p *parser) postfix() Expr {
	x := p.primary()
	// parentheses only matter in front of a selector: `(T).m` names a method with a value receiver (exprName keeps them)
	if ep, ok := x.(*EParen); ok && !p.isOp(".") {
		x = ep.X
	}
	for {
		switch {
		case p.isOp("."):
			p.next()
			if p.isOp("(") {
				p.next()
				ty := p.typeName()
				p.expectOp(")")
				x = &ETypeAssert{x, ty}
				continue
			}
			t := p.next()
			if t.k != "ident" {
				panic(fmt.Errorf("spec parse: selector expects identifier in %q", p.src))
			}
			x = &ESel{x, t.v}
		case p.isOp("("):
			p.next()
			var args []Expr
			for !p.isOp(")") {
				if id, isId := x.(*EIdent); isId && len(args) == 1 && (id.Name == "typeis" || id.Name == "typeimpl") {
					// the second argument is a type (possibly generic / pointer), not an expression
					args = append(args, &EIdent{p.typeName()})
					continue
				}
				if id, isId := x.(*EIdent); isId && len(args) == 0 && id.Name == "allelems" {
					// the argument is a type (possibly generic)
					args = append(args, &EIdent{p.typeName()})
					if p.isOp(",") {
						p.next()
					}
					continue
				}
				args = append(args, p.iff())
				if p.isOp(",") {
					p.next()
				}
			}
			p.next()
			x = &ECall{x, args}
		case p.isOp("["):
			p.next()
			var lo, hi Expr
			if p.isOp(":") {
				p.next()
				if !p.isOp("]") {
					hi = p.iff()
				}
				p.expectOp("]")
				x = &ESlice{x, nil, hi}
				continue
			}
			lo = p.iff()
			if p.isOp(":") {
				p.next()
				if !p.isOp("]") {
					hi = p.iff()
				}
				p.expectOp("]")
				x = &ESlice{x, lo, hi}
				continue
			}
			p.expectOp("]")
			x = &EIndex{x, lo}
		default:
			return x
		}
	}
}

// typeName parses a (simple) Go type: ident, pkg.ident, *T, []T, map[K]V
func (p *parser) typeName() string {
	var sb strings.Builder
	for {
		t := p.peek()
		if t.k == "op" && (t.v == "*" || t.v == "[" || t.v == "]" || t.v == ".") {
			sb.WriteString(t.v)
			p.next()
			continue
		}
		if t.k == "ident" {
			sb.WriteString(t.v)
			p.next()
			// continue only on '.' or after map[...]
			if p.isOp(".") || (strings.HasSuffix(sb.String(), "map") && p.isOp("[")) {
				continue
			}
			if strings.Contains(sb.String(), "map[") && strings.Count(sb.String(), "[") > strings.Count(sb.String(), "]") {
				continue
			}
			if p.isOp("]") && strings.Count(sb.String(), "[") > strings.Count(sb.String(), "]") {
				continue
			}
			prev := sb.String()
			if strings.HasSuffix(prev, "]") || strings.HasSuffix(prev, "*") {
				continue
			}
			// generic instantiation Name[T1,T2]
			if p.isOp("[") && !strings.HasPrefix(prev, "map") {
				depth := 0
				for {
					tk := p.next()
					if tk.k == "eof" {
						break
					}
					sb.WriteString(tk.v)
					if tk.k == "op" && tk.v == "[" {
						depth++
					}
					if tk.k == "op" && tk.v == "]" {
						depth--
						if depth == 0 {
							break
						}
					}
				}
			}
			return sb.String()
		}
		if t.k == "num" { // [16]byte
			sb.WriteString(t.v)
			p.next()
			continue
		}
		return sb.String()
	}
}

func (p *parser) primary() Expr {
	t := p.next()
	switch t.k {
	case "num":
		return &ENum{t.v}
	case "str":
		return &EStr{t.v}
	case "ident":
		if (t.v == "forall" || t.v == "exists") && p.peek().k == "ident" { // otherwise an ordinary identifier named exists/forall
			v := p.next()
			if v.k != "ident" {
				panic(fmt.Errorf("spec parse: quantifier variable expected in %q", p.src))
			}
			q := &EQuant{Forall: t.v == "forall", Var: v.v}
			if p.peek().k == "ident" && p.peek().v == "in" {
				p.next()
				q.Lo = p.add()
				p.expectOp("..")
				q.Hi = p.add()
			} else {
				q.Typ = p.typeName()
			}
			p.expectOp("::")
			q.Body = p.iff()
			return q
		}
		return &EIdent{t.v}
	case "op":
		if t.v == "(" {
			e := p.iff()
			p.expectOp(")")
			return &EParen{e}
		}
	}
	panic(fmt.Errorf("spec parse: unexpected token %v in %q", t, p.src))
}

// ---------------------------------------------------------------- spec file structures

type Clause struct {
	Kind  string // requires ensures invariant modifies assert ghostset
	E     Expr
	Src   string
	Idx   int    // 1-based index among clauses of this kind in the function
	Tag   string // optional [tag] e.g. known-finding label
	Props []string
}

type LoopSpec struct {
	Invariants []*Clause
	Modifies   []Expr
	Decreases  Expr
	Preserves  []Expr
	Exits      []*Clause // asserted on every edge that leaves the loop without returning
}

type CallSiteSpec struct {
	Callee  string
	Ordinal int // -1 = every ordinal
	Asserts []*Clause
	AssertsB []*Clause // checked before the call
	Ghost   []GhostSet // applied after the call
	GhostB  []GhostSet // applied before the call
	Havoc   []Expr     // caller-side frame: locations the callee may also write through pointers it was handed (assumption, listed)
}

type GhostSet struct {
	LHS Expr
	RHS Expr
	Src string
}

type FuncSpec struct {
	Name      string // normalised function name, e.g. (*Handle).AllocateID
	Pkg       string // package path the spec file belongs to
	Kind      string // func | lib | iface
	Props     []string
	Requires  []*Clause
	Invariants []*Clause // assumed data-structure invariants (not checked at call sites)
	Ensures   []*Clause
	Modifies  []Expr
	HasMod    bool
	Pure      bool
	Inline    bool
	Trusted   bool // contract assumed, body not checked
	MayPanic  bool
	NoSafe    bool // do not generate #safe obligations (protocol-only contracts)
	Loops     map[int]*LoopSpec
	Calls     []*CallSiteSpec
	Params    []string // lib/iface: parameter names (self first for methods)
	File      string
	Line      int
	FreshRet  bool
	DetFn       string // result == DetFn(args...) is assumed at call sites (determinism assumption)
	Extensional bool // fixed-size array values get an extensionality axiom in this function's VCs
	Opaque    []string // callee names to treat as opaque (havoc per their modset) even if they have bodies
	Hide      []string // spec functions kept uninterpreted in this function's VCs
}

type GhostVar struct {
	Name string
	Typ  string
	Pkg  string
}

type SpecFun struct {
	Name   string
	Params []string // names
	PTypes []string
	RetTyp string
	Body   Expr // nil = uninterpreted
	Pkg    string
	Src    string
}

type Lemma struct {
	Name     string
	Props    []string
	Vars     [][2]string // name,type
	Requires []*Clause
	Ensures  []*Clause
	Pkg      string
}

type GlobalSpec struct {
	Name string // pkgpath.Name
	Expr Expr   // value as spec expr
}

type SpecDB struct {
	Funcs   map[string]*FuncSpec // key: pkgpath + "::" + name
	Ghosts  map[string]*GlobalGhost
	Specs   map[string]*SpecFun
	Lemmas  []*Lemma
	Consts  map[string]Expr // global var treated as constant: key pkgpath.Name
	Files   []string
	Trusted []string // descriptions of assumed contracts (lib/iface/trusted)
	RawSMT  []string // raw prelude lines
	Structurals []*Structural
}

// Structural: a method-set obligation decided on go/types (no SMT): every method of Iface that returns an error
// is declared directly on Type (not promoted from an embedded field).
type Structural struct {
	Pkg, Type, Iface string
	Props            []string
}

type GlobalGhost struct {
	Name     string
	Typ      string
	Pkg      string
	Monotone bool
}

func NewSpecDB() *SpecDB {
	return &SpecDB{Funcs: map[string]*FuncSpec{}, Ghosts: map[string]*GlobalGhost{}, Specs: map[string]*SpecFun{}, Consts: map[string]Expr{}}
}

func specKey(pkg, name string) string { return pkg + "::" + name }

// LoadSpecFile parses one file. pkgPath: package the file belongs to ("" for /verif/contracts, where
// each block names its package with "pkg <path>").
func (db *SpecDB) LoadSpecFile(path, pkgPath string) error {
	data, err := os.ReadFile(path)
	if err != nil {
		return err
	}
	db.Files = append(db.Files, path)
	lines := strings.Split(string(data), "\n")
	var cur *FuncSpec
	var curLemma *Lemma
	curPkg := pkgPath
	counts := map[string]int{}
	fail := func(i int, f string, a ...any) error {
		return fmt.Errorf("%s:%d: %s", path, i+1, fmt.Sprintf(f, a...))
	}
	for i := 0; i < len(lines); i++ {
		ln := strings.TrimSpace(lines[i])
		if !strings.HasPrefix(ln, "//@") {
			continue
		}
		body := strings.TrimSpace(ln[3:])
		// continuation lines
		for strings.HasSuffix(body, "\\") && i+1 < len(lines) {
			nx := strings.TrimSpace(lines[i+1])
			if !strings.HasPrefix(nx, "//@") {
				break
			}
			body = strings.TrimSuffix(body, "\\") + " " + strings.TrimSpace(nx[3:])
			i++
		}
		if body == "" || strings.HasPrefix(body, "#") {
			continue
		}
		// strip trailing comment " // ..."
		if k := strings.Index(body, " // "); k >= 0 {
			body = strings.TrimSpace(body[:k])
		}
		word, rest := splitWord(body)
		parse := func(s string) (Expr, error) {
			e, err := parseExpr(s)
			if err != nil {
				return nil, fail(i, "%v", err)
			}
			return e, nil
		}
		switch word {
		case "pkg":
			curPkg = rest
		case "func", "lib", "iface", "fieldfn":
			if cur != nil || curLemma != nil {
				return fail(i, "nested block (missing end?)")
			}
			cur = &FuncSpec{Name: rest, Pkg: curPkg, Kind: word, Loops: map[int]*LoopSpec{}, File: path, Line: i + 1}
			if word != "func" {
				// optional parameter list: lib name(p1, p2)
				if k := strings.Index(rest, "("); k >= 0 && strings.HasSuffix(rest, ")") && !strings.HasPrefix(rest, "(") {
					cur.Name = strings.TrimSpace(rest[:k])
					for _, pn := range strings.Split(rest[k+1:len(rest)-1], ",") {
						if pn = strings.TrimSpace(pn); pn != "" {
							cur.Params = append(cur.Params, pn)
						}
					}
				} else if k := strings.LastIndex(rest, "("); k > 0 && strings.HasSuffix(rest, ")") && strings.HasPrefix(rest, "(") {
					// method form: (*T).m(p1,p2)
					name := strings.TrimSpace(rest[:k])
					if strings.Contains(name, ").") {
						cur.Name = name
						for _, pn := range strings.Split(rest[k+1:len(rest)-1], ",") {
							if pn = strings.TrimSpace(pn); pn != "" {
								cur.Params = append(cur.Params, pn)
							}
						}
					}
				}
				cur.Trusted = true
			}
			counts = map[string]int{}
		case "end":
			if cur != nil {
				k := specKey(cur.Pkg, cur.Name)
				if _, dup := db.Funcs[k]; dup {
					return fail(i, "duplicate contract for %s", k)
				}
				db.Funcs[k] = cur
				if cur.Trusted {
					db.Trusted = append(db.Trusted, cur.Kind+" "+cur.Pkg+"."+cur.Name)
				}
				cur = nil
			} else if curLemma != nil {
				db.Lemmas = append(db.Lemmas, curLemma)
				curLemma = nil
			} else {
				return fail(i, "end without block")
			}
		case "ghost":
			w2, r2 := splitWord(rest)
			if w2 != "var" {
				return fail(i, "expected 'ghost var'")
			}
			name, typ := splitWord(r2)
			mono := false
			if strings.HasSuffix(typ, " monotone") { // a counter that only grows (e.g. the clock)
				mono = true
				typ = strings.TrimSpace(strings.TrimSuffix(typ, " monotone"))
			}
			db.Ghosts[name] = &GlobalGhost{Name: name, Typ: typ, Pkg: curPkg, Monotone: mono}
		case "global":
			// global pkg.Name = expr  (package-level var treated as a constant)
			k := strings.Index(rest, "=")
			if k < 0 {
				return fail(i, "global needs '='")
			}
			e, err := parse(strings.TrimSpace(rest[k+1:]))
			if err != nil {
				return err
			}
			db.Consts[strings.TrimSpace(rest[:k])] = e
			db.Trusted = append(db.Trusted, "global "+strings.TrimSpace(rest[:k])+" is never reassigned")
		case "smt":
			db.RawSMT = append(db.RawSMT, rest)
		case "structural":
			// structural overrides <Type> <Interface> errors <props...>
			f := strings.Fields(rest)
			if len(f) < 5 || f[0] != "overrides" || f[3] != "errors" {
				return fail(i, "structural: expected 'overrides <Type> <Interface> errors <props>'")
			}
			db.Structurals = append(db.Structurals, &Structural{Pkg: curPkg, Type: f[1], Iface: f[2], Props: f[4:]})
		case "spec":
			sf, err := parseSpecFun(rest, curPkg)
			if err != nil {
				return fail(i, "%v", err)
			}
			db.Specs[sf.Name] = sf
		case "lemma":
			if cur != nil || curLemma != nil {
				return fail(i, "nested block")
			}
			curLemma = &Lemma{Name: rest, Pkg: curPkg}
			counts = map[string]int{}
		default:
			if cur == nil && curLemma == nil {
				return fail(i, "clause %q outside a block", word)
			}
			tag := ""
			mk := func(kind, src string) (*Clause, error) {
				src = strings.TrimSpace(src)
				if strings.HasPrefix(src, "[") {
					k := strings.Index(src, "]")
					tag = src[1:k]
					src = strings.TrimSpace(src[k+1:])
				}
				e, err := parse(src)
				if err != nil {
					return nil, err
				}
				counts[kind]++
				return &Clause{Kind: kind, E: e, Src: src, Idx: counts[kind], Tag: tag}, nil
			}
			if curLemma != nil {
				switch word {
				case "props":
					curLemma.Props = strings.Fields(strings.ReplaceAll(rest, ",", " "))
				case "var":
					n, t := splitWord(rest)
					curLemma.Vars = append(curLemma.Vars, [2]string{n, t})
				case "requires":
					c, err := mk("requires", rest)
					if err != nil {
						return err
					}
					curLemma.Requires = append(curLemma.Requires, c)
				case "ensures":
					c, err := mk("ensures", rest)
					if err != nil {
						return err
					}
					curLemma.Ensures = append(curLemma.Ensures, c)
				default:
					return fail(i, "unknown lemma clause %q", word)
				}
				continue
			}
			switch word {
			case "props":
				cur.Props = strings.Fields(strings.ReplaceAll(rest, ",", " "))
			case "requires":
				c, err := mk("requires", rest)
				if err != nil {
					return err
				}
				cur.Requires = append(cur.Requires, c)
			case "invariant":
				// data-structure invariant: assumed on entry, NOT checked at call sites (listed as an assumption)
				c, err := mk("invariant", rest)
				if err != nil {
					return err
				}
				cur.Invariants = append(cur.Invariants, c)
			case "ensures":
				c, err := mk("ensures", rest)
				if err != nil {
					return err
				}
				cur.Ensures = append(cur.Ensures, c)
			case "function":
				// function f: the function's result is ASSUMED to be a deterministic function f(args...) of its argument
				// values (f an uninterpreted spec function); callers learn result == f(args), the body is not checked against it
				cur.DetFn = strings.TrimSpace(rest)
			case "modifies":
				cur.HasMod = true
				if rest != "" && rest != "nothing" {
					for _, part := range splitTop(rest, ',') {
						e, err := parse(part)
						if err != nil {
							return err
						}
						cur.Modifies = append(cur.Modifies, e)
					}
				}
			case "pure":
				cur.Pure = true
				cur.HasMod = true
			case "inline":
				cur.Inline = true
			case "trusted":
				cur.Trusted = true
			case "may_panic":
				cur.MayPanic = true
			case "nosafe":
				cur.NoSafe = true
			case "fresh_result":
				cur.FreshRet = true
			case "extensional":
				cur.Extensional = true
			case "opaque":
				cur.Opaque = append(cur.Opaque, strings.Fields(strings.ReplaceAll(rest, ",", " "))...)
			case "hide":
				// hide f g: these spec functions stay uninterpreted in this function's VCs (their definitions are not needed here)
				cur.Hide = append(cur.Hide, strings.Fields(strings.ReplaceAll(rest, ",", " "))...)
			case "loop":
				ks, r2 := splitWord(rest)
				k, err := strconv.Atoi(ks)
				if err != nil {
					return fail(i, "loop ordinal: %v", err)
				}
				ls := cur.Loops[k]
				if ls == nil {
					ls = &LoopSpec{}
					cur.Loops[k] = ls
				}
				w3, r3 := splitWord(r2)
				switch w3 {
				case "invariant":
					e, err := parse(r3)
					if err != nil {
						return err
					}
					ls.Invariants = append(ls.Invariants, &Clause{Kind: "invariant", E: e, Src: r3, Idx: len(ls.Invariants) + 1})
				case "modifies":
					for _, part := range splitTop(r3, ',') {
						e, err := parse(part)
						if err != nil {
							return err
						}
						ls.Modifies = append(ls.Modifies, e)
					}
				case "preserves":
					// loop k preserves <loc>, <loc>: locations the loop does not write (kept across the loop-head
					// havoc; checked to be unchanged on every back edge)
					for _, part := range splitTop(r3, ',') {
						e, err := parse(part)
						if err != nil {
							return err
						}
						ls.Preserves = append(ls.Preserves, e)
					}
				case "exit":
					// loop k exit assert <expr>: holds whenever the loop is left normally (not by a return inside it)
					w4, r4 := splitWord(r3)
					if w4 != "assert" {
						return fail(i, "expected 'loop k exit assert <expr>'")
					}
					e, err := parse(r4)
					if err != nil {
						return err
					}
					ls.Exits = append(ls.Exits, &Clause{Kind: "loop.exit", E: e, Src: r4, Idx: len(ls.Exits) + 1})
				case "decreases":
					e, err := parse(r3)
					if err != nil {
						return err
					}
					ls.Decreases = e
				default:
					return fail(i, "unknown loop clause %q", w3)
				}
			case "at":
				// at call <callee>#<k>: ghost x = e | assert e | before ghost x = e
				w2, r2 := splitWord(rest)
				if w2 != "call" {
					return fail(i, "expected 'at call'")
				}
				k := strings.Index(r2, ":")
				if k < 0 {
					return fail(i, "at call needs ':'")
				}
				target := strings.TrimSpace(r2[:k])
				action := strings.TrimSpace(r2[k+1:])
				ord := -1
				if h := strings.LastIndex(target, "#"); h >= 0 {
					if target[h+1:] != "*" {
						ord, err = strconv.Atoi(target[h+1:])
						if err != nil {
							return fail(i, "call ordinal: %v", err)
						}
					}
					target = target[:h]
				}
				var cs *CallSiteSpec
				for _, c := range cur.Calls {
					if c.Callee == target && c.Ordinal == ord {
						cs = c
					}
				}
				if cs == nil {
					cs = &CallSiteSpec{Callee: target, Ordinal: ord}
					cur.Calls = append(cur.Calls, cs)
				}
				aw, ar := splitWord(action)
				before := false
				if aw == "before" {
					before = true
					aw, ar = splitWord(ar)
				}
				switch aw {
				case "havoc":
					// at call f#k: havoc <loc>, <loc>: the call may write these caller-named locations (out-parameters reached
					// through pointers inside interface values, which the callee's own contract cannot name)
					for _, part := range splitTop(ar, ',') {
						e, err := parse(part)
						if err != nil {
							return err
						}
						cs.Havoc = append(cs.Havoc, e)
					}
				case "assert":
					c, err := mk("assert", ar)
					if err != nil {
						return err
					}
					if before {
						cs.AssertsB = append(cs.AssertsB, c)
					} else {
						cs.Asserts = append(cs.Asserts, c)
					}
				case "ghost":
					eq := strings.Index(ar, "=")
					for eq >= 0 && (ar[eq+1] == '=' || (eq > 0 && strings.ContainsRune("=!<>", rune(ar[eq-1])))) {
						nx := strings.Index(ar[eq+2:], "=")
						if nx < 0 {
							eq = -1
						} else {
							eq = eq + 2 + nx
						}
					}
					if eq < 0 {
						return fail(i, "ghost assignment needs '='")
					}
					l, err := parse(strings.TrimSpace(ar[:eq]))
					if err != nil {
						return err
					}
					r, err := parse(strings.TrimSpace(ar[eq+1:]))
					if err != nil {
						return err
					}
					gs := GhostSet{LHS: l, RHS: r, Src: ar}
					if before {
						cs.GhostB = append(cs.GhostB, gs)
					} else {
						cs.Ghost = append(cs.Ghost, gs)
					}
				default:
					return fail(i, "unknown call-site action %q", aw)
				}
			default:
				return fail(i, "unknown clause %q", word)
			}
		}
	}
	if cur != nil || curLemma != nil {
		return fmt.Errorf("%s: unterminated block", path)
	}
	return nil
}

func splitWord(s string) (string, string) {
	s = strings.TrimSpace(s)
	k := strings.IndexAny(s, " \t")
	if k < 0 {
		return s, ""
	}
	return s[:k], strings.TrimSpace(s[k+1:])
}

// splitTop splits at sep outside brackets.
func splitTop(s string, sep byte) []string {
	var out []string
	depth := 0
	last := 0
	for i := 0; i < len(s); i++ {
		switch s[i] {
		case '(', '[', '{':
			depth++
		case ')', ']', '}':
			depth--
		default:
			if s[i] == sep && depth == 0 {
				out = append(out, strings.TrimSpace(s[last:i]))
				last = i + 1
			}
		}
	}
	out = append(out, strings.TrimSpace(s[last:]))
	return out
}

// spec name(p1 T1, p2 T2) R = expr      |  spec name(p1 T1) R     (uninterpreted)
func parseSpecFun(s, pkg string) (*SpecFun, error) {
	k := strings.Index(s, "(")
	if k < 0 {
		return nil, fmt.Errorf("spec: missing '('")
	}
	name := strings.TrimSpace(s[:k])
	depth := 0
	j := k
	for ; j < len(s); j++ {
		if s[j] == '(' {
			depth++
		}
		if s[j] == ')' {
			depth--
			if depth == 0 {
				break
			}
		}
	}
	params := s[k+1 : j]
	rest := strings.TrimSpace(s[j+1:])
	sf := &SpecFun{Name: name, Pkg: pkg, Src: s}
	if strings.TrimSpace(params) != "" {
		for _, p := range splitTop(params, ',') {
			n, t := splitWord(p)
			sf.Params = append(sf.Params, n)
			sf.PTypes = append(sf.PTypes, t)
		}
	}
	if eq := strings.Index(rest, "="); eq >= 0 && !strings.HasPrefix(rest[eq:], "==") {
		sf.RetTyp = strings.TrimSpace(rest[:eq])
		e, err := parseExpr(strings.TrimSpace(rest[eq+1:]))
		if err != nil {
			return nil, err
		}
		sf.Body = e
	} else {
		sf.RetTyp = rest
	}
	return sf, nil
}

// LoadAllSpecs loads /repo/**/zz_contracts_verif.go and /verif/contracts/*.spec
func LoadAllSpecs(repo, verif string, modPath string) (*SpecDB, error) {
	db := NewSpecDB()
	var files []string
	filepath.Walk(repo, func(p string, info os.FileInfo, err error) error {
		if err != nil {
			return nil
		}
		if info.IsDir() && (info.Name() == ".git" || info.Name() == "node_modules") {
			return filepath.SkipDir
		}
		if !info.IsDir() && strings.HasPrefix(info.Name(), "zz_contracts") && strings.HasSuffix(info.Name(), "_verif.go") {
			files = append(files, p)
		}
		return nil
	})
	sort.Strings(files)
	for _, f := range files {
		pkg, err := pkgPathOfDir(repo, filepath.Dir(f))
		if err != nil {
			return nil, err
		}
		if err := db.LoadSpecFile(f, pkg); err != nil {
			return nil, err
		}
	}
	pre, _ := filepath.Glob(filepath.Join(verif, "contracts", "*.spec"))
	sort.Strings(pre)
	for _, f := range pre {
		if err := db.LoadSpecFile(f, ""); err != nil {
			return nil, err
		}
	}
	return db, nil
}

// pkgPathOfDir finds the import path of a directory by walking up to its go.mod.
func pkgPathOfDir(repo, dir string) (string, error) {
	d := dir
	for {
		gm := filepath.Join(d, "go.mod")
		if data, err := os.ReadFile(gm); err == nil {
			for _, l := range strings.Split(string(data), "\n") {
				l = strings.TrimSpace(l)
				if strings.HasPrefix(l, "module ") {
					mod := strings.TrimSpace(strings.TrimPrefix(l, "module "))
					rel, _ := filepath.Rel(d, dir)
					if rel == "." {
						return mod, nil
					}
					return mod + "/" + filepath.ToSlash(rel), nil
				}
			}
		}
		if d == repo || d == "/" {
			return "", fmt.Errorf("no go.mod above %s", dir)
		}
		d = filepath.Dir(d)
	}
}
