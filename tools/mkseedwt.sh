#!/bin/bash
# usage: mkseedwt.sh <dir>   -- scratch worktree of /repo HEAD for a seeding sub-agent, with the contract files hidden
D=$1
git -C /repo worktree add --detach -q "$D" HEAD || exit 2
cd "$D" || exit 2
for f in $(git ls-files | grep -E "zz_contracts.*_verif.go"); do git update-index --assume-unchanged "$f"; rm -f "$f"; done
echo "worktree $D ready"
