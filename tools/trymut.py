#!/usr/bin/env python3
"""usage: trymut.py <props comma> <file relative to /repo> <old> <new>   -- apply a textual mutation to /repo, run the checks, revert.
Used for must-fail self-tests of contracts (the mutation must make the named property check report a violation)."""
import sys,subprocess,os
props,f,old,new=sys.argv[1].split(','),sys.argv[2],sys.argv[3],sys.argv[4]
st=subprocess.run(['git','-C','/repo','status','--porcelain','--untracked-files=no'],capture_output=True,text=True).stdout.strip()
if st:
    print('REFUSING: /repo dirty'); sys.exit(2)
p=os.path.join('/repo',f); s=open(p).read()
if s.count(old)!=1:
    print('pattern count',s.count(old)); sys.exit(2)
open(p,'w').write(s.replace(old,new))
try:
    b=subprocess.run('cd /repo/%s && GOFLAGS= GOPROXY=off go build ./... 2>&1 | tail -3'%os.path.dirname(f) ,shell=True,capture_output=True,text=True)
    if b.stdout.strip(): print('BUILD:',b.stdout.strip())
    for pr in props:
        r=subprocess.run(['/verif/check',pr,'quick'],capture_output=True,text=True,env=dict(os.environ,GOVC_NOEVIDENCE='1'))
        lines=[l[:260] for l in r.stdout.splitlines() if l.startswith(('VIOLATION','property=','ENGINE'))]
        print('--- mutant vs',pr,'rc=',r.returncode); print('\n'.join(lines[-4:]))
finally:
    subprocess.run(['git','-C','/repo','checkout','--',f])
