#!/bin/bash
# usage: tryseed.sh <seed-id> <prop> [<prop>...]   -- applies seeded/<id>/patch.diff to /repo, runs the checks, reverts the patch
S=$1; shift
P=/verif/seeded/$S/patch.diff
[ -f $P ] || { echo "no patch for $S"; exit 2; }
if [ -n "$(git -C /repo status --porcelain --untracked-files=no)" ]; then echo "REFUSING: /repo has uncommitted changes to tracked files"; exit 2; fi
git -C /repo apply $P || exit 2
for pr in "$@"; do
  echo "--- seeded $S vs check $pr"
  /verif/bin/govc check -prop $pr -no-evidence 2>&1 | grep -v "^KNOWN" | cut -c1-240 | tail -4
done
git -C /repo apply -R $P
