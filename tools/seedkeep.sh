#!/bin/bash
# usage: seedkeep.sh <ID> <worktree> <module-relative pkg dir of demo> <TestName> [extra pkgs to run, module-relative, space separated in quotes] [module dir relative to worktree]
# Confirms a seeded change: demo fails with it, passes without it, the baseline-stable tests of the touched packages still pass.
set -u
ID=$1; WT=$2; PKG=$3; TEST=$4; EXTRA=${5:-}; MOD=${6:-.}
OUT=/verif/seeded/$ID; mkdir -p $OUT
cd $WT || exit 2
git diff > $OUT/patch.diff
[ -s $OUT/patch.diff ] || { echo "empty patch"; exit 2; }
DEMO=$(git ls-files --others --exclude-standard | grep zz_seed_demo_test.go | head -1)
cp "$DEMO" $OUT/zz_seed_demo_test.go
echo "$DEMO" > $OUT/demo_path.txt
cd $WT/$MOD
echo "== demo with change (expect FAIL)"
GOPROXY=off go test -vet=off -count=1 -timeout 600s -run "^$TEST\$" ./$PKG/ > $OUT/demo_with.log 2>&1; W=$?
tail -3 $OUT/demo_with.log
cd $WT; git apply -R $OUT/patch.diff; cd $WT/$MOD
echo "== demo without change (expect PASS)"
GOPROXY=off go test -vet=off -count=1 -timeout 600s -run "^$TEST\$" ./$PKG/ > $OUT/demo_without.log 2>&1; WO=$?
tail -3 $OUT/demo_without.log
cd $WT; git apply $OUT/patch.diff; cd $WT/$MOD
echo "== existing tests with change"
mv $WT/$DEMO /tmp/seed_demo_$ID.go
GOPROXY=off go test -vet=off -count=1 -timeout 25m -json ./$PKG/ $EXTRA > $OUT/tests_with.json 2>/dev/null
mv /tmp/seed_demo_$ID.go $WT/$DEMO
python3 - $OUT/tests_with.json <<'PY' > $OUT/tests_summary.txt
import json,sys
base=json.load(open('/root/.vp/BASELINE.json'))
stable=set(eval(base['stable_pass'])) if isinstance(base['stable_pass'],str) else set(base['stable_pass'])
res={}
pk=set()
for l in open(sys.argv[1]):
    try: e=json.loads(l)
    except: continue
    if e.get('Test') and e.get('Action') in('pass','fail','skip'):
        res[e['Package']+'::'+e['Test']]=e['Action']; pk.add(e['Package'])
bad=[t for t in stable if t.split('::')[0] in pk and res.get(t)!='pass']
print('packages',sorted(pk)); print('tests seen',len(res),'stable in these pkgs',len([t for t in stable if t.split('::')[0] in pk]))
print('STABLE-NOT-PASSING',bad)
PY
cat $OUT/tests_summary.txt
echo "demo_with_exit=$W demo_without_exit=$WO"
