#!/bin/sh
# runs every claimed check (quick) on the current tree; prints one line per property
cd /verif
ids=$(python3 -c "import json;print(' '.join(c['property_id'] for c in json.load(open('MANIFEST.json'))['checks']))")
fail=0
for id in $ids; do
  out=$(./check $id quick 2>&1); rc=$?
  echo "$id rc=$rc $(echo "$out" | grep '^property=' | tail -1)"
  if [ $rc -ne 0 ]; then fail=1; echo "$out" | grep -E 'VIOLATION|ENGINE' | head -5; fi
done
exit $fail
