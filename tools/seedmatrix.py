#!/usr/bin/env python3
"""Applies every seeded change (seeded/<id>/patch.diff) to /repo in turn, runs the quick check of the property it breaks,
reverts it, and writes seeded/MATRIX.json + seeded/MATRIX.md (which check catches which change, by which obligation)."""
import json,os,subprocess,sys,glob,re
os.chdir('/verif')
claimed={c['property_id'] for c in json.load(open('MANIFEST.json'))['checks']}
st=subprocess.run(['git','-C','/repo','status','--porcelain','--untracked-files=no'],capture_output=True,text=True).stdout.strip()
if st: print('REFUSING: /repo dirty'); sys.exit(2)
only=set(sys.argv[1:])
rows=[]
prev={}
if os.path.exists('seeded/MATRIX.json'):
    for r in json.load(open('seeded/MATRIX.json')): prev[r['seed']]=r
for d in sorted(glob.glob('seeded/*/meta.json')):
    sid=os.path.basename(os.path.dirname(d)); m=json.load(open(d)); prop=m['property']
    if only and sid not in only:
        if sid in prev: rows.append(prev[sid])
        continue
    row={'seed':sid,'property':prop,'summary':m['summary'][:160]}
    if prop not in claimed:
        row.update(result='property not claimed'); rows.append(row); continue
    p=os.path.join('seeded',sid,'patch.diff')
    a=subprocess.run(['git','-C','/repo','apply',os.path.abspath(p)],capture_output=True,text=True)
    if a.returncode!=0:
        row.update(result='patch does not apply: '+a.stderr.strip()[:100]); rows.append(row); continue
    try:
        def run(pr):
            r=subprocess.run(['/verif/check',pr,'quick'],capture_output=True,text=True,env=dict(os.environ,GOVC_NOEVIDENCE='1'))
            v=[l for l in r.stdout.splitlines() if l.startswith('VIOLATION')]
            def name(l):
                m=re.search(r'obligation=(\S+)',l)
                if m: return m.group(1)
                m=re.search(r'bounded case (\S+?):',l)
                if m: return 'bounded:'+m.group(1)
                if 'bounded harness' in l: return 'bounded-harness-cannot-run'
                return 'outside-subset'
            return r.returncode,[name(l) for l in v]
        rc,obl=run(prop)
        row.update(result='caught' if rc==1 and obl else ('ENGINE-ERROR' if rc==2 else 'missed'),obligations=obl[:3],rc=rc)
        if row['result']=='missed':
            for other in m.get('also_breaks',[]):
                if other in claimed and other!=prop:
                    rc2,obl2=run(other)
                    if rc2==1 and obl2:
                        row.update(result='missed by %s, caught by the %s check'%(prop,other),obligations=obl2[:3]); break
    finally:
        subprocess.run(['git','-C','/repo','apply','-R',os.path.abspath(p)])
    rows.append(row); print(sid,row['result'],row.get('obligations',''),flush=True)
json.dump(rows,open('seeded/MATRIX.json','w'),indent=1)
with open('seeded/MATRIX.md','w') as f:
    f.write('| seed | property | result | first failing obligations |\n|---|---|---|---|\n')
    for r in rows: f.write('| %s | %s | %s | %s |\n'%(r['seed'],r['property'],r['result'],', '.join('`%s`'%o for o in r.get('obligations',[]))))
c=sum(1 for r in rows if r['result']=='caught'); c2=sum(1 for r in rows if 'caught by the' in r['result']); print('caught',c,'(+%d by another property\'s check) of'%c2,len(rows))
