#!/usr/bin/env python3
"""Applies every seeded change (seeded/<id>/patch.diff) to /repo in turn, runs the quick check of the property it breaks,
reverts it, and writes seeded/MATRIX.json + seeded/MATRIX.md (which check catches which change, by which obligation)."""
import json,os,subprocess,sys,glob,re
os.chdir('/verif')
claimed={c['property_id'] for c in json.load(open('MANIFEST.json'))['checks']}
st=subprocess.run(['git','-C','/repo','status','--porcelain','--untracked-files=no'],capture_output=True,text=True).stdout.strip()
if st: print('REFUSING: /repo dirty'); sys.exit(2)
only=set(sys.argv[1:])
rows=[]
prev={}
if os.path.exists('seeded/MATRIX.json'):
    for r in json.load(open('seeded/MATRIX.json')): prev[r['seed']]=r
for d in sorted(glob.glob('seeded/*/meta.json')):
    sid=os.path.basename(os.path.dirname(d)); m=json.load(open(d)); prop=m['property']
    if only and sid not in only:
        if sid in prev: rows.append(prev[sid])
        continue
    row={'seed':sid,'property':prop,'summary':m['summary'][:160]}
    if prop not in claimed:
        row.update(result='property not claimed'); rows.append(row); continue
    p=os.path.join('seeded',sid,'patch.diff')
    a=subprocess.run(['git','-C','/repo','apply',os.path.abspath(p)],capture_output=True,text=True)
    if a.returncode!=0:
        row.update(result='patch does not apply: '+a.stderr.strip()[:100]); rows.append(row); continue
    try:
        r=subprocess.run(['/verif/check',prop,'quick'],capture_output=True,text=True,env=dict(os.environ,GOVC_NOEVIDENCE='1'))
        v=[l for l in r.stdout.splitlines() if l.startswith('VIOLATION')]
        obl=[re.search(r'obligation=(\S+)',l).group(1) if 'obligation=' in l else 'outside-subset' for l in v]
        row.update(result='caught' if r.returncode==1 and v else ('ENGINE-ERROR' if r.returncode==2 else 'missed'),obligations=obl[:3],rc=r.returncode)
    finally:
        subprocess.run(['git','-C','/repo','apply','-R',os.path.abspath(p)])
    rows.append(row); print(sid,row['result'],row.get('obligations',''),flush=True)
json.dump(rows,open('seeded/MATRIX.json','w'),indent=1)
with open('seeded/MATRIX.md','w') as f:
    f.write('| seed | property | result | first failing obligations |\n|---|---|---|---|\n')
    for r in rows: f.write('| %s | %s | %s | %s |\n'%(r['seed'],r['property'],r['result'],', '.join('`%s`'%o for o in r.get('obligations',[]))))
c=sum(1 for r in rows if r['result']=='caught'); print('caught',c,'of',len(rows))
