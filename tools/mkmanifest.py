#!/usr/bin/env python3
"""Regenerates /verif/MANIFEST.json from the table below (claimed properties) + not_applicable reasons."""
import json, subprocess
ids=[json.loads(l)['id'] for l in open('/verif/properties.jsonl')]
TB="Trusted: the govc VC generator and go/ssa lowering, the three SMT solvers, the library/interface contracts listed in the evidence file's trusted_base, mathematical (unbounded) 64-bit integers, sequential execution of each function body."
claimed={
 "C37":dict(text="Unbounded WP proof of exact functional contracts for every sop.Handle step (NewHandle, GetActiveID/GetInActiveID, IsAandBinUse, AllocateID, FlipActiveID, ClearInactiveID, HasID, IsEmpty, IsEqual, IsExpiredInactive) for all handle values; these are the atomic steps the commit protocol composes.",
   note="Decides the per-step handle discipline (claim allocates only the inactive slot, flip swaps active/inactive, clear only touches the inactive slot). The composition over interleavings of 2-3 committers is NOT decided yet. "+TB, tech="contract-based deductive verification (WP over go/ssa, SMT)", ref="§5 C37"),
 "C34":dict(text="Unbounded WP proof that Authorize equals the access rule written from the statement (system visibility, admin, owner, public read/list, role and user grants) for all callers, grant maps and actions (four loops with invariants), that CheckPolicy/EnforcePolicy/CanPerformAction deny write/delete on core resources for everyone and otherwise agree with the rule.",
   note="GetAuthFromContext is the definition of the caller identity (trusted). ResolveRBACMap's agreement with enforcement is under contract separately (see evidence). "+TB, tech="contract-based deductive verification (WP over go/ssa, SMT)", ref="§5 C34"),
 "C16":dict(text="Unbounded WP proof over ghost per-participant call counters that SinglePhaseTransaction.Commit issues a participant's Phase2Commit only after SOP's and every participant's Phase1Commit and SOP's Phase2Commit succeeded, that any error return means no participant Phase2 ran and SOP plus every participant were asked to roll back, that Rollback asks everyone even when earlier ones fail, and the same for a failing Begin; any number of participants, every failure position (each interface call returns an arbitrary error).",
   note="Participants are abstract TwoPhaseCommitTransaction values whose calls only bump ghost counters (interface contracts, assumed). SOP's own transaction is assumed not to be registered as its own participant. "+TB, tech="contract-based deductive verification (WP over go/ssa, SMT)", ref="§5 C16"),
}
na_reason={
 "C04":"progress under contention (both writers eventually commit) is a liveness property over schedules; pre/postconditions give partial correctness per call only",
 "C15":"wall-clock bound on Commit and deadlock freedom are timing/liveness properties of concurrent executions, not expressible as function contracts",
 "C32":"BM25 ranking goes through four cooperating stores, string building and IEEE-754 arithmetic with math.Log; the generator has no floating-point arithmetic beyond comparison",
 "C33":"2,200 lines over five stores with float vectors, centroid maps, tombstones and a background goroutine; needs one abstract view across stores and threads, outside the verifiable subset",
 "C36":"data-race freedom is a property of the Go memory model over schedules; the generator has no permission/ownership logic",
}
checks=[]; na=[]
for i in ids:
    if i in claimed:
        c=claimed[i]
        checks.append({"property_id":i,"quick_cmd":"./check %s quick"%i,"thorough_cmd":"./check %s thorough"%i,"evidence_file":"/verif/evidence/%s.json"%i,
          "replay_cmd_template":"./check --replay {path}","engine":"govc",
          "level_claimed":{"category":"proof","text":c["text"],"design_ref":c["ref"]},"level_note":c["note"],"technique":c["tech"]})
    else:
        na.append({"property_id":i,"reason":na_reason.get(i,"contracts not yet written/discharged in this build of the framework (planned, see DESIGN.md §5); not claimed")})
hooks=subprocess.run(["git","-C","/repo","log","--format=%H %s","cd93e9f3..HEAD"],capture_output=True,text=True).stdout.strip().split("\n")
hook_commits=[h.split()[0] for h in hooks if h and " verif:" in " "+h.split(" ",1)[1][:0]+" "+h.split(" ",1)[1]]
m={"version":1,
"setup_cmd":"/verif/build.sh",
"hooks":{"guard":"verif","enable":"contracts are comment-only files zz_contracts_verif.go guarded by //go:build verif; checks load /repo with go/packages -tags=verif","baseline_off_cmd":"for m in . adapters/cassandra adapters/redis ai incfs infs jsondb search; do (cd /repo/$m && go test -vet=off -count=1 -timeout 25m ./...); done","source_commits":hook_commits,"add_only":True},
"engines":[{"name":"govc","path":"/verif/engine","serves_properties":sorted(claimed),"kind_free_text":"weakest-precondition VC generator over go/ssa of the real /repo source; contracts as //@ comments in build-tag-guarded files; one SMT query per named obligation, raced over z3 4.8.12 / z3 5.1.0 / cvc5 1.0"}],
"checks":checks,"not_applicable":na,
"notes":"Every check reloads /repo's working tree. Exit 0 = all obligations discharged (KNOWN-FINDING lines possible), exit 1 = VIOLATION line(s), exit 2 = engine error."}
json.dump(m,open('/verif/MANIFEST.json','w'),indent=1)
print("claimed",sorted(claimed),"hooks",hook_commits)
