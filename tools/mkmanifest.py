#!/usr/bin/env python3
"""Regenerates /verif/MANIFEST.json from the table below (claimed properties) + not_applicable reasons."""
import json, subprocess
ids=[json.loads(l)['id'] for l in open('/verif/properties.jsonl')]
TB="Trusted: the govc VC generator and go/ssa lowering, the three SMT solvers, the library/interface contracts listed in the evidence file's trusted_base, mathematical (unbounded) 64-bit integers, sequential execution of each function body."
TECH="contract-based deductive verification (WP over go/ssa, SMT: z3/z3-new/cvc5)"
def C(text,note,ref): return dict(text=text,note=note+" "+TB,tech=TECH,ref=ref)
claimed={
 "C37":C("Unbounded WP proof of exact functional contracts for every sop.Handle step (NewHandle, GetActiveID/GetInActiveID, IsAandBinUse, AllocateID, FlipActiveID, ClearInactiveID, HasID, IsEmpty, IsEqual, IsExpiredInactive) for all handle values, plus the undo-dispatch contract of Transaction.rollback: rollbackUpdatedNodes (which clears inactive ids and deletes their blobs) runs exactly when this transaction's own claim may have been written (logged state > commitUpdatedNodes), never for a committer that did not claim.",
   "Decides the per-step handle discipline and the 'only the claimant unclaims' rule. The composition over interleavings of 2-3 committers is NOT decided.","§5 C37"),
 "C34":C("Unbounded WP proof that Authorize equals the access rule written from the statement (system visibility, admin, owner, public read/list, role and user grants) for all callers, grant maps and actions (four loops with invariants), and that CheckPolicy/EnforcePolicy/CanPerformAction deny write/delete on core resources for everyone and otherwise agree with the rule.",
   "GetAuthFromContext is the definition of the caller identity (trusted). ResolveRBACMap (UI map) is not yet under contract.","§5 C34"),
 "C16":C("Unbounded WP proof over ghost per-participant call counters that SinglePhaseTransaction.Commit issues a participant's Phase2Commit only after SOP's and every participant's Phase1Commit and SOP's Phase2Commit succeeded, that any error return means no participant Phase2 ran and SOP plus every participant were asked to roll back, that Rollback asks everyone even when earlier ones fail, and the same for a failing Begin; any number of participants, every failure position (each interface call returns an arbitrary error).",
   "Participants are abstract TwoPhaseCommitTransaction values whose calls only bump ghost counters (interface contracts, assumed). SOP's own transaction is assumed not to be registered as its own participant.","§5 C16"),
 "C14":C("Unbounded WP proof of the lifecycle state machine of common.Transaction over (phaseDone, committed, mode): Begin succeeds only from the initial state, Phase1Commit/Phase2Commit/Rollback reject a transaction that has not begun or is finished and leave its state unchanged, reader and no-check modes never reach the writer's phase1Commit/phase2Commit/rollback, a committed transaction is never rolled back, a failed phase ends the transaction with rollback called; plus the wrapper SinglePhaseTransaction.Commit/Rollback (a failed Commit rolls SOP's transaction back).",
   "The guarded B-tree wrappers (btree/withtransaction.go) are not yet under contract, so 'operations succeed only between Begin and the end' is decided for the transaction object only. phase1Commit/phase2Commit/rollback/onIdle are abstracted by their computed modification sets (they do not write phaseDone/committed/mode: checked syntactically, transitively).","§5 C14"),
 "C06":C("Unbounded WP proof of the count bookkeeping wiring: getRollbackStoresInfo returns exactly one entry per opened store at the store's own index with CountDelta == nodeRepository.count - Count (the reverse delta); getCommitStoresInfo lists exactly the stores with a non-zero delta; Transaction.rollback writes the reverse deltas back (StoreRepository.Update) whenever the store infos were committed and some store existed before, and never otherwise.",
   "Btree.Add/Remove count arithmetic and fs.StoreRepository.Update's merge are not yet under contract; tree-level 'scan length == Count' is not decided here.","§5 C06"),
 "C23":C("Unbounded WP proof (arbitrary block contents, CRC-32 as an uninterpreted function of the bytes) that unmarshalData accepts exactly valid blocks (all zero, or trailer == CRC of the rest), marshalData always produces one, checkCow only hands back complete valid backups, restoreFromCow yields a valid block from a valid backup, writeBlockRegionPayload leaves a valid block, and readAndRestoreBlock returns nil only with a valid block when the block passed its check or a backup was restored. The statement-level clause 'err == nil ==> valid block' fails in one class (checksum mismatch, no usable backup) and is reported as a known finding.",
   "Disk and backup file I/O are trusted interface/OS calls returning arbitrary data and errors. The pinned tests require blocks without a checksum to be served, so the finding cannot be repaired (see known_findings.json).","§5 C23"),
 "C12":C("Unbounded WP proof of the created-store clause of Transaction.rollback: when the logged state is at least createStore (and the transaction is not past its commit point) every store created by the transaction is removed through StoreRepository.Remove (loop invariant over the opened stores), and none is removed otherwise. The early-return branch for actively persisted items does not remove created stores: known finding.",
   "The create path (NewBtree logging before StoreRepository.Add, the loser of a concurrent creation) and fs.StoreRepository.Add/Remove are not yet under contract.","§5 C12"),
 "C09":C("Reachability obligation on Transaction.Begin: a successful Begin runs processScheduledPriorityRollback and processExpiredLogs. It holds only when a store is already open; at Begin none is, so the maintenance sweeps never run from the public API: known finding (confirmed by a two-process replay at design time).",
   "Interval arithmetic of the sweeps and clustered (Redis) mode are not under contract.","§5 C09"),
 "C10":C("Unbounded WP proof of the undo dispatch of Transaction.rollback as 'exactly when' clauses: rollbackNewRootNodes / rollbackAddedNodes / rollbackRemovedNodes / rollbackUpdatedNodes run if and only if the logged state is strictly past their do-step, so a rollback never deletes blobs or registry entries staged by a step that did not run (e.g. the loser of a new-root race must not delete the winner's root blob).",
   "getToBeObsoleteEntries (which ids become obsolete after a commit) and the value-blob id discipline are not yet under contract.","§5 C10"),
 "C11":C("Unbounded WP proof of cleanup coverage in Transaction.rollback: the transaction log is removed on every undo path, the priority log is removed once beforeFinalize was reached, and the value blobs written by commitTrackedItemsValues are deleted whenever that step was reached (state >= commitTrackedItemsValues, because the step can fail half-way after writing some blobs).",
   "cleanup()/deleteObsoleteEntries after a successful commit and the step self-cleaning clauses are not yet under contract; the orphaned-value-blob defect noted in DESIGN.md §7 is therefore not yet reported by a check.","§5 C11"),
 "C01":C("Unbounded WP proof of the undo coverage part of all-or-nothing: Transaction.rollback undoes every step whose effect may exist (including the store-info/count update for every pre-existing store, by position), Phase1Commit/Phase2Commit call rollback on every error path and end the transaction, SinglePhaseTransaction.Commit rolls everything back on any failure. Every storage/cache/log call returns an arbitrary error, so all fault positions are covered.",
   "The commit point (single registry update in phase2Commit), staged-id discipline of commitUpdatedNodes and back-end visibility are not yet under contract.","§5 C01"),
 "C07":C("Unbounded WP proof of error-path coverage: on every error of Phase1Commit/Phase2Commit the transaction ends and rollback runs; rollback always unlocks the node keys, unlocks the tracked items once they were locked, removes the logs (priority log too once beforeFinalize was reached) and resets the logged state, for every logged state and every combination of failing storage calls.",
   "Step self-cleaning inside the commitX steps (the confirmed blob-write failure after the registry claim, DESIGN.md §7) is not yet under contract.","§5 C07"),
}
na_reason={
 "C04":"progress under contention (both writers eventually commit) is a liveness property over schedules; pre/postconditions give partial correctness per call only",
 "C15":"wall-clock bound on Commit and deadlock freedom are timing/liveness properties of concurrent executions, not expressible as function contracts",
 "C32":"BM25 ranking goes through four cooperating stores, string building and IEEE-754 arithmetic with math.Log; the generator has no floating-point arithmetic beyond comparison",
 "C33":"2,200 lines over five stores with float vectors, centroid maps, tombstones and a background goroutine; needs one abstract view across stores and threads, outside the verifiable subset",
 "C36":"data-race freedom is a property of the Go memory model over schedules; the generator has no permission/ownership logic",
}
checks=[]; na=[]
for i in ids:
    if i in claimed:
        c=claimed[i]
        checks.append({"property_id":i,"quick_cmd":"./check %s quick"%i,"thorough_cmd":"./check %s thorough"%i,"evidence_file":"/verif/evidence/%s.json"%i,
          "replay_cmd_template":"./check --replay {path}","engine":"govc",
          "level_claimed":{"category":"proof","text":c["text"],"design_ref":c["ref"]},"level_note":c["note"],"technique":c["tech"]})
    else:
        na.append({"property_id":i,"reason":na_reason.get(i,"contracts not yet written/discharged in this build of the framework (planned, see DESIGN.md §5); not claimed")})
hooks=subprocess.run(["git","-C","/repo","log","--format=%H %s","cd93e9f3..HEAD"],capture_output=True,text=True).stdout.strip().split("\n")
hook_commits=[h.split()[0] for h in hooks if h and " verif:" in " "+h.split(" ",1)[1][:0]+" "+h.split(" ",1)[1]]
m={"version":1,
"setup_cmd":"/verif/build.sh",
"hooks":{"guard":"verif","enable":"contracts are comment-only files zz_contracts_verif.go guarded by //go:build verif; checks load /repo with go/packages -tags=verif","baseline_off_cmd":"for m in . adapters/cassandra adapters/redis ai incfs infs jsondb search; do (cd /repo/$m && go test -vet=off -count=1 -timeout 25m ./...); done","source_commits":hook_commits,"add_only":True},
"engines":[{"name":"govc","path":"/verif/engine","serves_properties":sorted(claimed),"kind_free_text":"weakest-precondition VC generator over go/ssa of the real /repo source; contracts as //@ comments in build-tag-guarded files; one SMT query per named obligation, raced over z3 4.8.12 / z3 5.1.0 / cvc5 1.0"}],
"checks":checks,"not_applicable":na,
"notes":"Every check reloads /repo's working tree. Exit 0 = all obligations discharged (KNOWN-FINDING lines possible), exit 1 = VIOLATION line(s), exit 2 = engine error."}
json.dump(m,open('/verif/MANIFEST.json','w'),indent=1)
print("claimed",sorted(claimed),"hooks",hook_commits)
